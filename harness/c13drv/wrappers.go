package main

// Subjects for the Lock / WithLock / Once / Limit wrappers of the function types. Each wrapper is
// built once per pair around a function that increments a plain (unsynchronised) counter; the
// "method" of the subject is a call of the wrapped function. If the wrapper serialises the calls
// the way it promises (mutex / once / counted-under-mutex) there is no race on the counter. The
// keys are the extractor's function keys; checks/c13.py fails when a wrapper the extractor lists
// has no entry here.

import (
	"context"
	"sync"

	"github.com/tychoish/fun"
	"github.com/tychoish/fun/ft"
)

func init() {
	builders := map[string]func() method{
		"fun.Producer.WithLock": func() method {
			var n int
			mu := &sync.Mutex{}
			f := fun.Producer[int](func(context.Context) (int, error) { n++; return n, nil }).WithLock(mu)
			return func(c *callCtx) { _, _ = f(c.ctx) }
		},
		"fun.Producer.Lock": func() method {
			var n int
			f := fun.Producer[int](func(context.Context) (int, error) { n++; return n, nil }).Lock()
			return func(c *callCtx) { _, _ = f(c.ctx) }
		},
		"fun.Producer.Once": func() method {
			var n int
			f := fun.Producer[int](func(context.Context) (int, error) { n++; return n, nil }).Once()
			return func(c *callCtx) { _, _ = f(c.ctx) }
		},
		"fun.Producer.Limit": func() method {
			var n int
			f := fun.Producer[int](func(context.Context) (int, error) { n++; return n, nil }).Limit(7)
			return func(c *callCtx) { _, _ = f(c.ctx) }
		},
		"fun.Processor.WithLock": func() method {
			var n int
			mu := &sync.Mutex{}
			f := fun.Processor[int](func(_ context.Context, in int) error { n += in; return nil }).WithLock(mu)
			return func(c *callCtx) { _ = f(c.ctx, c.i) }
		},
		"fun.Processor.Lock": func() method {
			var n int
			f := fun.Processor[int](func(_ context.Context, in int) error { n += in; return nil }).Lock()
			return func(c *callCtx) { _ = f(c.ctx, c.i) }
		},
		"fun.Processor.Once": func() method {
			var n int
			f := fun.Processor[int](func(_ context.Context, in int) error { n += in; return nil }).Once()
			return func(c *callCtx) { _ = f(c.ctx, c.i) }
		},
		"fun.Processor.Limit": func() method {
			var n int
			f := fun.Processor[int](func(_ context.Context, in int) error { n += in; return nil }).Limit(7)
			return func(c *callCtx) { _ = f(c.ctx, c.i) }
		},
		"fun.Worker.WithLock": func() method {
			var n int
			mu := &sync.Mutex{}
			f := fun.Worker(func(context.Context) error { n++; return nil }).WithLock(mu)
			return func(c *callCtx) { _ = f(c.ctx) }
		},
		"fun.Worker.Lock": func() method {
			var n int
			f := fun.Worker(func(context.Context) error { n++; return nil }).Lock()
			return func(c *callCtx) { _ = f(c.ctx) }
		},
		"fun.Worker.Once": func() method {
			var n int
			f := fun.Worker(func(context.Context) error { n++; return nil }).Once()
			return func(c *callCtx) { _ = f(c.ctx) }
		},
		"fun.Worker.Limit": func() method {
			var n int
			f := fun.Worker(func(context.Context) error { n++; return nil }).Limit(7)
			return func(c *callCtx) { _ = f(c.ctx) }
		},
		"fun.Operation.WithLock": func() method {
			var n int
			mu := &sync.Mutex{}
			f := fun.Operation(func(context.Context) { n++ }).WithLock(mu)
			return func(c *callCtx) { f(c.ctx) }
		},
		"fun.Operation.Lock": func() method {
			var n int
			f := fun.Operation(func(context.Context) { n++ }).Lock()
			return func(c *callCtx) { f(c.ctx) }
		},
		"fun.Operation.Once": func() method {
			var n int
			f := fun.Operation(func(context.Context) { n++ }).Once()
			return func(c *callCtx) { f(c.ctx) }
		},
		"fun.Operation.Limit": func() method {
			// documented: the limited operations may run concurrently, so the wrapped function
			// must be safe by itself; the wrapper's own state is one atomic counter
			var mu sync.Mutex
			var n int
			f := fun.Operation(func(context.Context) { mu.Lock(); n++; mu.Unlock() }).Limit(7)
			return func(c *callCtx) { f(c.ctx) }
		},
		"fun.Handler.WithLock": func() method {
			var n int
			mu := &sync.Mutex{}
			f := fun.Handler[int](func(in int) { n += in }).WithLock(mu)
			return func(c *callCtx) { f(c.i) }
		},
		"fun.Handler.Lock": func() method {
			var n int
			f := fun.Handler[int](func(in int) { n += in }).Lock()
			return func(c *callCtx) { f(c.i) }
		},
		"fun.Handler.Once": func() method {
			var n int
			f := fun.Handler[int](func(in int) { n += in }).Once()
			return func(c *callCtx) { f(c.i) }
		},
		"fun.Future.WithLock": func() method {
			var n int
			mu := &sync.Mutex{}
			f := fun.Future[int](func() int { n++; return n }).WithLock(mu)
			return func(c *callCtx) { _ = f() }
		},
		"fun.Future.Lock": func() method {
			var n int
			f := fun.Future[int](func() int { n++; return n }).Lock()
			return func(c *callCtx) { _ = f() }
		},
		"fun.Future.Once": func() method {
			var n int
			f := fun.Future[int](func() int { n++; return n }).Once()
			return func(c *callCtx) { _ = f() }
		},
		"fun.Future.Limit": func() method {
			var n int
			f := fun.Future[int](func() int { n++; return n }).Limit(7)
			return func(c *callCtx) { _ = f() }
		},
		"fun.Transform.WithLock": func() method {
			var n int
			mu := &sync.Mutex{}
			f := fun.Transform[int, int](func(_ context.Context, in int) (int, error) { n += in; return n, nil }).WithLock(mu)
			return func(c *callCtx) { _, _ = f(c.ctx, c.i) }
		},
		"fun.Transform.Lock": func() method {
			var n int
			f := fun.Transform[int, int](func(_ context.Context, in int) (int, error) { n += in; return n, nil }).Lock()
			return func(c *callCtx) { _, _ = f(c.ctx, c.i) }
		},
		"ft.Once": func() method {
			var n int
			f := ft.Once(func() { n++ })
			return func(c *callCtx) { f() }
		},
		"ft.OnceDo": func() method {
			var n int
			f := ft.OnceDo(func() int { n++; return n })
			return func(c *callCtx) { _ = f() }
		},
	}
	s := &subject{name: "fun.wrappers", domain: "fun.wrappers", methods: map[string]method{}}
	// the wrapped functions are rebuilt for every pair: `make` swaps fresh ones in
	s.make = func(ctx context.Context) *callCtx {
		for k, b := range builders {
			s.methods[k] = b()
		}
		return &callCtx{subj: s, extra: map[string]any{}}
	}
	for k, b := range builders {
		s.methods[k] = b()
	}
	register(s)
}
