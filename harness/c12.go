package main

import (
	"context"
	"errors"
	"fmt"
	"sort"
	"strings"
	"sync"

	"github.com/tychoish/fun/erc"
	"github.com/tychoish/fun/ers"
)

// ---- error kinds used to build trees -------------------------------------------------

type ptrLeaf struct{ id int }

func (e *ptrLeaf) Error() string { return fmt.Sprintf("L%d", e.id) }

// an error that is also a fmt.Stringer (like *exec.ExitError): still an error first
func (e *ptrLeaf) String() string { return fmt.Sprintf("stringer-of-L%d", e.id) }

type tyErr0 struct{ id int }
type tyErr1 struct{ id int }

// tyErr2 is an error type that is NOT comparable (used by value, with a slice field): `==` between two
// interface values holding it panics, which is why errors.Is guards its identity test by a
// comparability check; it is found through its Is method (same id).
type tyErr2 struct {
	id   int
	tags []string
}

func (e *tyErr0) Error() string { return fmt.Sprintf("T0.%d", e.id) }
func (e *tyErr1) Error() string { return fmt.Sprintf("T1.%d", e.id) }
func (e tyErr2) Error() string { return fmt.Sprintf("T2.%d", e.id) }
func (e tyErr2) Is(t error) bool {
	o, ok := t.(tyErr2)
	return ok && o.id == e.id
}

type multiErr struct {
	id int
	cs []error
}

func (e *multiErr) Error() string   { return fmt.Sprintf("M%d", e.id) }
func (e *multiErr) Unwrap() []error { return e.cs }

type unwErr struct {
	id int
	cs []error
}

func (e *unwErr) Error() string   { return fmt.Sprintf("U%d", e.id) }
func (e *unwErr) Unwind() []error { return e.cs }

var errUnrelated = errors.New("unrelated")

type c12env struct {
	byID   map[int]error
	labels map[error]string
}

func newC12env() *c12env {
	return &c12env{byID: map[int]error{
		999: errUnrelated, 1000: ers.ErrRecoveredPanic, 1001: ers.ErrInvariantViolation,
	}, labels: map[error]string{}}
}

func (env *c12env) reg(id int, label string, err error) error {
	env.byID[id] = err
	if _, unc := err.(tyErr2); !unc {
		env.labels[err] = label
	}
	return err
}

func (env *c12env) children(xs []*Sexp) []error {
	out := make([]error, len(xs))
	for i, x := range xs {
		out[i] = env.eval(x)
	}
	return out
}

func noNil(cs []error) bool {
	for _, c := range cs {
		if c == nil {
			return false
		}
	}
	return true
}

func (env *c12env) eval(s *Sexp) error {
	if !s.IsLst {
		if s.Atom == "N" {
			return nil
		}
		if s.Atom == "NS" {
			// a typed nil: what ers.AsStack(nil) returns; every Stack method treats it as the empty stack
			return (*ers.Stack)(nil)
		}
		panic("bad-term " + s.Atom)
	}
	args := s.Args()
	switch s.Head() {
	case "L":
		id := args[0].Int()
		if e, ok := env.byID[id]; ok {
			return e
		}
		// alternate between the three kinds of plain errors the library meets
		switch id % 3 {
		case 0:
			return env.reg(id, fmt.Sprintf("L%d", id), ers.Error(fmt.Sprintf("L%d", id)))
		case 1:
			return env.reg(id, fmt.Sprintf("L%d", id), &ptrLeaf{id})
		default:
			return env.reg(id, fmt.Sprintf("L%d", id), errors.New(fmt.Sprintf("L%d", id)))
		}
	case "T":
		ty, id := args[0].Int(), args[1].Int()
		if e, ok := env.byID[id]; ok {
			return e
		}
		lbl := fmt.Sprintf("T%d.%d", ty, id)
		switch ty {
		case 0:
			return env.reg(id, lbl, &tyErr0{id})
		case 1:
			return env.reg(id, lbl, &tyErr1{id})
		default:
			return env.reg(id, lbl, tyErr2{id, []string{"uncomparable"}})
		}
	case "W":
		id := args[0].Int()
		inner := env.eval(args[1])
		if inner == nil {
			return nil
		}
		return env.reg(id, fmt.Sprintf("W%d", id), fmt.Errorf("W%d: %w", id, inner))
	case "M":
		id := args[0].Int()
		cs := env.children(args[1:])
		lbl := fmt.Sprintf("M%d", id)
		switch {
		case len(cs) >= 1 && noNil(cs) && id%3 == 0:
			return env.reg(id, lbl, errors.Join(cs...))
		case len(cs) == 2 && noNil(cs) && id%3 == 1:
			return env.reg(id, lbl, fmt.Errorf("M%d: %w + %w", id, cs[0], cs[1]))
		default:
			return env.reg(id, lbl, &multiErr{id, cs})
		}
	case "U":
		id := args[0].Int()
		return env.reg(id, fmt.Sprintf("U%d", id), &unwErr{id, env.children(args[1:])})
	case "S":
		st := &ers.Stack{}
		st.Add(env.children(args)...)
		return st
	case "J":
		return ers.Join(env.children(args)...)
	case "X":
		return ers.Wrap(env.eval(args[1]), fmt.Sprintf("L%d", args[0].Int()))
	case "UWS":
		// errors.Unwrap of a *ers.Stack hands out an inner node of the chain (only the head node carries a
		// count); used as an operand it stands for the remaining items
		e := env.eval(args[0])
		if st, ok := e.(*ers.Stack); ok && st != nil {
			return errors.Unwrap(st)
		}
		return e
	case "V":
		// the operand is looked at before it is used: observations must not change it
		e := env.eval(args[0])
		_ = ers.Unwind(e)
		_ = errors.Is(e, errUnrelated)
		var t0 *tyErr0
		_ = errors.As(e, &t0)
		return e
	case "P":
		inner := env.eval(args[0])
		if inner == nil {
			return ers.ParsePanic(nil)
		}
		return ers.ParsePanic(inner)
	}
	panic("bad-term " + s.String())
}

func (env *c12env) label(e error) string {
	if u, ok := e.(tyErr2); ok {
		return fmt.Sprintf("T2.%d", u.id)
	}
	if l, ok := env.labels[e]; ok {
		return l
	}
	if _, ok := e.(*ers.Stack); ok {
		return "S"
	}
	if e == ers.ErrRecoveredPanic {
		return "L1000"
	}
	if e == ers.ErrInvariantViolation {
		return "L1001"
	}
	// annotation leaves made inside ers.Wrap carry their label as message
	return e.Error()
}

func (env *c12env) isBits(r error, ids []*Sexp) string {
	var sb strings.Builder
	for _, x := range ids {
		t, ok := env.byID[x.Int()]
		if !ok {
			sb.WriteString("0")
			continue
		}
		sb.WriteString(bit(errors.Is(r, t)))
	}
	return sb.String()
}

func c12case(s *Sexp) string {
	env := newC12env()
	switch s.Head() {
	case "case":
		r := env.eval(s.List[2])
		if r == nil {
			return "nil"
		}
		// everything is observed twice: Is / As / Unwind / Len are read-only
		first := c12observe(env, s, r)
		if second := c12observe(env, s, r); second != first {
			return "UNSTABLE-OBS " + first + " THEN " + second
		}
		return first
	}
	return c12rest(env, s)
}

func c12observe(env *c12env, s *Sexp, r error) string {
	{
		as := make([]string, 4)
		var t0 *tyErr0
		var t1 *tyErr1
		var t2 tyErr2
		as[0], as[1], as[2], as[3] = "-", "-", "-", "-"
		var ce ers.Error
		if errors.As(r, &ce) {
			switch ce {
			case ers.ErrRecoveredPanic:
				as[3] = "1000"
			case ers.ErrInvariantViolation:
				as[3] = "1001"
			default:
				as[3] = strings.TrimPrefix(string(ce), "L") // the constant leaves are ers.Error("L<id>")
			}
		}
		if errors.As(r, &t0) {
			as[0] = fmt.Sprint(t0.id)
		}
		if errors.As(r, &t1) {
			as[1] = fmt.Sprint(t1.id)
		}
		if errors.As(r, &t2) {
			as[2] = fmt.Sprint(t2.id)
		}
		unw := []string{}
		for _, e := range ers.Unwind(r) {
			unw = append(unw, env.label(e))
		}
		ln := "-"
		if st, ok := r.(*ers.Stack); ok {
			ln = fmt.Sprint(st.Len())
		}
		return fmt.Sprintf("res=%s is=%s as=%s unwind=[%s] len=%s", env.label(r),
			env.isBits(r, s.List[1].List), strings.Join(as, ","), strings.Join(unw, ","), ln)
	}
}

func c12rest(env *c12env, s *Sexp) string {
	switch s.Head() {
	case "colseq":
		// a sequence of calls on one Collector; every Resolve / Iterator / Len must show exactly the
		// constituents added so far, whatever was observed before
		ec := &erc.Collector{}
		outs := []string{}
		view := func(errs []error) string {
			ls := []string{}
			for _, e := range errs {
				ls = append(ls, env.label(e))
			}
			sort.Strings(ls)
			return strings.Join(ls, ",")
		}
		for _, st := range s.List[2:] {
			switch st.Head() {
			case "add":
				ec.Add(env.children(st.List[1:])[0])
				outs = append(outs, "ok")
			case "resolve":
				outs = append(outs, "r["+view(ers.Unwind(ec.Resolve()))+"]")
			case "iter":
				var got []error
				it := ec.Iterator()
				ctx := context.Background()
				for it.Next(ctx) {
					got = append(got, it.Value()) // each value is one constituent
				}
				_ = it.Close()
				outs = append(outs, "i["+view(got)+"]")
			case "len":
				outs = append(outs, fmt.Sprint(ec.Len()))
			default:
				return "bad-op"
			}
		}
		return strings.Join(outs, ";")
	case "collector":
		terms := s.List[2:]
		errs := env.children(terms)
		// The same partition of the terms is added by concurrent goroutines in many rounds (a fresh
		// Collector each): whatever the interleaving, the collector must end up holding exactly the
		// constituents added, so every round gives the same canonical observation. A round that
		// differs (an Add lost inside another Add's window) is reported with both observations.
		round := func(workers int) string {
			ec := &erc.Collector{}
			wg := &sync.WaitGroup{}
			start := make(chan struct{})
			for w := 0; w < workers; w++ {
				wg.Add(1)
				go func(w int) {
					defer wg.Done()
					<-start
					for i := w; i < len(errs); i += workers {
						ec.Add(errs[i])
						_ = ec.Len()
					}
				}(w)
			}
			close(start)
			wg.Wait()
			r := ec.Resolve()
			unw := []string{}
			for _, e := range ers.Unwind(r) {
				unw = append(unw, env.label(e))
			}
			sort.Strings(unw)
			isb := env.isBits(r, s.List[1].List)
			if r == nil {
				isb = strings.Repeat("0", len(s.List[1].List))
			}
			return fmt.Sprintf("len=%d nil=%s is=%s unwind=[%s]", ec.Len(), bit(r == nil && !ec.HasErrors()),
				isb, strings.Join(unw, ","))
		}
		first := round(4)
		rounds := 48
		if len(errs) < 2 {
			rounds = 2
		}
		for i := 0; i < rounds; i++ {
			if o := round(2 + i%7); o != first {
				return "UNSTABLE " + first + " VERSUS " + o
			}
		}
		return first
	}
	return "bad-op"
}

func init() { handlers["C12"] = c12case }
