package main

// Deterministic scheduler over the `verif` hooks of tychoish/fun (T-sched).
//
// A case gives every logical thread a program (a list of operations) and a list of choices.
// The scheduler runs exactly one atomic segment at a time: a thread runs from the start of
// an operation (or from its wake-up) until it returns or parks in cond.Wait; helper goroutines
// (the `<-ctx.Done(); Broadcast()` closures) are gated before their Broadcast; cancellations
// are explicit actions. Which goroutine a Signal/Broadcast wakes is tracked from the hook
// events (sync.Cond wakes in FIFO order), so the scheduler waits for exactly the goroutines
// that must arrive - no timing heuristics; a goroutine that must arrive and does not within
// the timeout is a lost wake-up and is reported as such.

import (
	"context"
	"fmt"
	"os"
	"strconv"
	"sort"
	"strings"
	"sync"
	"sync/atomic"
	"time"
)

type schedKeyT struct{}

type schedID struct {
	epoch int64
	tid   int
}

type evKind int

const (
	evPrepark evKind = iota
	evWoken
	evSignal
	evBroadcast
	evHelperSpawn
	evHelperGate
	evHelperDone
	evOpDone
	evYield
)

type schedEvent struct {
	kind   evKind
	tid    int
	cond   *sync.Cond
	name   string
	hctx   context.Context
	result string
}

type schedHelper struct {
	hctx   context.Context
	cond   *sync.Cond
	atGate bool
	fired  bool
	grant  chan struct{}
}

type tstate int

const (
	tIdle tstate = iota
	tRunning
	tParked
	tWoken
	tDone
)

type schedThread struct {
	id        int
	ops       []*Sexp
	pc        int
	state     tstate
	ctx       context.Context
	cancel    context.CancelFunc
	cancelled bool
	parkedOn  *sync.Cond
	grant     chan struct{}
	helpers   []*schedHelper
	yieldAt   string
}

type schedSubject interface {
	exec(ctx context.Context, tid int, op *Sexp) string
	final() string
}

type sched struct {
	epoch     int64
	events    chan schedEvent
	threads   []*schedThread
	parked    map[*sync.Cond][]int
	condNames map[*sync.Cond]string
	current   int
	subject   schedSubject
	log       []string
	failed    string
	timeout   time.Duration
	yields    map[string]bool // yield points at which threads are gated (srv)
	gatePrepark bool          // probe mode: hold a thread right before cond.Wait
	opwg        sync.WaitGroup // the operation goroutines of this case
}

var (
	activeSched   *sched
	activeSchedMu sync.Mutex
	schedEpoch    int64
)

func curSched() *sched {
	activeSchedMu.Lock()
	defer activeSchedMu.Unlock()
	return activeSched
}

// schedHook is installed with VerifSetHook in every instrumented package.
func schedHook(ctx context.Context, point string, args ...any) {
	s := curSched()
	if s == nil {
		return
	}
	tid := -1
	if ctx != nil {
		if id, ok := ctx.Value(schedKeyT{}).(schedID); ok {
			if id.epoch != s.epoch {
				return // a goroutine left over from an earlier case
			}
			tid = id.tid
		}
	}
	var cond *sync.Cond
	name := ""
	var mu sync.Locker
	for _, a := range args {
		switch v := a.(type) {
		case *sync.Cond:
			cond = v
		case string:
			name = v
		case sync.Locker:
			mu = v
		}
	}
	switch point {
	case "prepark":
		s.events <- schedEvent{kind: evPrepark, tid: tid, cond: cond, name: name}
		if s.gatePrepark && tid >= 0 {
			<-s.threads[tid].grant
		}
	case "woken":
		if tid < 0 {
			return
		}
		t := s.threads[tid]
		mu.Unlock()
		s.events <- schedEvent{kind: evWoken, tid: tid, cond: cond}
		<-t.grant
		mu.Lock()
	case "signal":
		s.events <- schedEvent{kind: evSignal, tid: tid, cond: cond, name: name}
	case "broadcast":
		s.events <- schedEvent{kind: evBroadcast, tid: tid, cond: cond, name: name}
	case "helper.spawn":
		s.events <- schedEvent{kind: evHelperSpawn, tid: tid, cond: cond, name: name, hctx: ctx}
	case "helper.gate":
		if tid < 0 {
			return
		}
		h := s.findHelperBlocking(tid, ctx)
		s.events <- schedEvent{kind: evHelperGate, tid: tid, cond: cond, hctx: ctx}
		if h != nil {
			<-h.grant
		}
	case "helper.done":
		s.events <- schedEvent{kind: evHelperDone, tid: tid, cond: cond, hctx: ctx}
	default:
		// named yield points (srv.Service.Start.*): gate the calling goroutine there
		if tid >= 0 && s.yields[point] {
			t := s.threads[tid]
			s.events <- schedEvent{kind: evYield, tid: tid, name: point}
			<-t.grant
		}
	}
}

var helperRegMu sync.Mutex

func (s *sched) findHelperBlocking(tid int, hctx context.Context) *schedHelper {
	// the helper was registered by the helper.spawn event, which the scheduler has processed
	// before the helper's context could be cancelled by a scheduler action; it may still be in
	// flight when the operation itself cancels on return, so wait for it briefly.
	deadline := time.Now().Add(s.timeout)
	for time.Now().Before(deadline) {
		helperRegMu.Lock()
		for _, h := range s.threads[tid].helpers {
			if h.hctx == hctx {
				helperRegMu.Unlock()
				return h
			}
		}
		helperRegMu.Unlock()
		time.Sleep(20 * time.Microsecond)
	}
	return nil
}

// schedTimeout bounds how long the scheduler waits for a goroutine that must arrive at a hook
// point; it only ever matters when something hangs (a lost wake-up), so it is generous.
// schedTimeouts counts the arrival deadlines missed so far in this process: once a few cases
// have shown a goroutine that never arrives (a lost wake-up is established and will be reported
// with those cases as replay), the remaining cases use a short deadline so that a tree in which
// most schedules hang does not make the run take hours.
var schedTimeouts atomic.Int64

func schedTimeout() time.Duration {
	if schedTimeouts.Load() >= 3 {
		return 1500 * time.Millisecond
	}
	if v, err := strconv.Atoi(os.Getenv("VERIF_SCHED_TIMEOUT_MS")); err == nil && v > 0 {
		return time.Duration(v) * time.Millisecond
	}
	return 8 * time.Second
}

func newSched(subject schedSubject, programs [][]*Sexp) *sched {
	activeSchedMu.Lock()
	schedEpoch++
	s := &sched{epoch: schedEpoch, events: make(chan schedEvent, 4096), parked: map[*sync.Cond][]int{},
		condNames: map[*sync.Cond]string{}, current: -1, subject: subject, timeout: schedTimeout(),
		yields: map[string]bool{}}
	for i, p := range programs {
		s.threads = append(s.threads, &schedThread{id: i, ops: p, grant: make(chan struct{}, 1)})
	}
	activeSched = s
	activeSchedMu.Unlock()
	return s
}

func (s *sched) close() {
	activeSchedMu.Lock()
	activeSched = nil
	activeSchedMu.Unlock()
	// let everything that is still blocked go, so that goroutines of this case can end
	for _, t := range s.threads {
		if t.cancel != nil {
			t.cancel()
		}
		for _, h := range t.helpers {
			select {
			case h.grant <- struct{}{}:
			default:
			}
		}
		select {
		case t.grant <- struct{}{}:
		default:
		}
	}
	// Wait until the operation goroutines of this case have ended: the signal/broadcast hook
	// points carry no context, so a goroutine of this case that was still blocked (and now
	// completes, e.g. a released BlockingAdd that performs its add) must not report into the
	// scheduler of the next case. Bounded, so a goroutine that is really stuck cannot hang the run.
	done := make(chan struct{})
	go func() { s.opwg.Wait(); close(done) }()
	select {
	case <-done:
	case <-time.After(2 * time.Second):
	}
}

func (s *sched) name(c *sync.Cond) string {
	if n, ok := s.condNames[c]; ok {
		return n
	}
	return "?"
}

// enabled actions, in a canonical order
func (s *sched) enabled(allowCancel bool) []string {
	var out []string
	for _, t := range s.threads {
		if t.state == tIdle && t.pc < len(t.ops) {
			out = append(out, fmt.Sprintf("s%d", t.id))
		}
	}
	for _, t := range s.threads {
		if t.state == tWoken {
			out = append(out, fmt.Sprintf("r%d", t.id))
		}
	}
	if allowCancel {
		for _, t := range s.threads {
			if (t.state == tParked || t.state == tWoken) && !t.cancelled && t.yieldAt == "" {
				out = append(out, fmt.Sprintf("c%d", t.id))
			}
		}
	}
	for _, t := range s.threads {
		for _, h := range t.helpers {
			if h.atGate && !h.fired {
				out = append(out, fmt.Sprintf("f%d", t.id))
				break
			}
		}
	}
	return out
}

type pending struct {
	woken   map[int]bool
	helpers map[*schedHelper]bool
}

// process consumes events until `done` says the running segment has ended and every goroutine
// that must arrive at a gate has arrived.
func (s *sched) process(segTid int, needEnd bool) (end string, woke []int) {
	p := &pending{woken: map[int]bool{}, helpers: map[*schedHelper]bool{}}
	ended := !needEnd
	timer := time.NewTimer(s.timeout)
	defer timer.Stop()
	for {
		// helpers whose context has ended (cancel action, or the deferred cancel of a wait that
		// returned) head for their gate: wait for them
		for _, t := range s.threads {
			for _, h := range t.helpers {
				if !h.atGate && !h.fired && h.hctx.Err() != nil {
					p.helpers[h] = true
				}
			}
		}
		if ended && len(p.woken) == 0 && len(p.helpers) == 0 {
			sort.Ints(woke)
			return end, woke
		}
		select {
		case ev := <-s.events:
			tid := ev.tid
			if tid < 0 {
				tid = segTid
			}
			switch ev.kind {
			case evPrepark:
				if ev.name != "" {
					s.condNames[ev.cond] = ev.name
				}
				t := s.threads[tid]
				t.state, t.parkedOn = tParked, ev.cond
				s.parked[ev.cond] = append(s.parked[ev.cond], tid)
				if tid == segTid {
					ended, end = true, "park:"+s.name(ev.cond)
				}
			case evSignal:
				if ev.name != "" {
					s.condNames[ev.cond] = ev.name
				}
				if q := s.parked[ev.cond]; len(q) > 0 {
					w := q[0]
					s.parked[ev.cond] = q[1:]
					p.woken[w] = true
				}
			case evBroadcast, evHelperDone:
				if ev.name != "" {
					s.condNames[ev.cond] = ev.name
				}
				for _, w := range s.parked[ev.cond] {
					p.woken[w] = true
				}
				s.parked[ev.cond] = nil
				if ev.kind == evHelperDone {
					for _, h := range s.threads[tid].helpers {
						if h.hctx == ev.hctx {
							delete(p.helpers, h)
						}
					}
				}
			case evWoken:
				t := s.threads[tid]
				t.state, t.parkedOn = tWoken, nil
				if p.woken[tid] {
					delete(p.woken, tid)
					woke = append(woke, tid)
				} else {
					// a wake-up nobody accounted for (spurious, or a Signal the hooks do not see)
					woke = append(woke, tid)
					s.note(fmt.Sprintf("unexpected-wake:%d", tid))
					for c, q := range s.parked {
						for i, w := range q {
							if w == tid {
								s.parked[c] = append(append([]int{}, q[:i]...), q[i+1:]...)
							}
						}
					}
				}
			case evHelperSpawn:
				if ev.name != "" {
					s.condNames[ev.cond] = ev.name
				}
				helperRegMu.Lock()
				h := &schedHelper{hctx: ev.hctx, cond: ev.cond, grant: make(chan struct{}, 1)}
				s.threads[tid].helpers = append(s.threads[tid].helpers, h)
				helperRegMu.Unlock()
			case evHelperGate:
				for _, h := range s.threads[tid].helpers {
					if h.hctx == ev.hctx {
						h.atGate = true
						delete(p.helpers, h)
					}
				}
			case evOpDone:
				t := s.threads[tid]
				t.state = tIdle
				t.pc++
				if t.pc >= len(t.ops) {
					t.state = tDone
				}
				// the operation's deferred cancel releases its helpers towards their gate
				for _, h := range t.helpers {
					if !h.atGate && !h.fired {
						p.helpers[h] = true
					}
				}
				if tid == segTid {
					ended, end = true, "ret:"+ev.result
				}
			case evYield:
				t := s.threads[tid]
				t.state, t.yieldAt = tWoken, ev.name
				if tid == segTid {
					ended, end = true, "yield:"+ev.name
				}
			}
		case <-timer.C:
			var miss []string
			for w := range p.woken {
				miss = append(miss, fmt.Sprintf("wake:%d", w))
			}
			for range p.helpers {
				miss = append(miss, "helper-gate")
			}
			if !ended {
				miss = append(miss, fmt.Sprintf("segment-end:%d", segTid))
			}
			sort.Strings(miss)
			schedTimeouts.Add(1)
			s.failed = "TIMEOUT(" + strings.Join(miss, ",") + ")"
			return "timeout", woke
		}
	}
}

func (s *sched) note(n string) { s.log = append(s.log, "note="+n) }

func (s *sched) startOp(t *schedThread) {
	op := t.ops[t.pc]
	base := context.WithValue(context.Background(), schedKeyT{}, schedID{s.epoch, t.id})
	t.ctx, t.cancel = context.WithCancel(base)
	t.cancelled = false
	t.state = tRunning
	ctx := t.ctx
	s.opwg.Add(1)
	go func() {
		defer s.opwg.Done()
		res := func() (out string) {
			defer func() {
				if r := recover(); r != nil {
					out = fmt.Sprintf("PANIC(%v)", r)
				}
			}()
			return s.subject.exec(ctx, t.id, op)
		}()
		s.events <- schedEvent{kind: evOpDone, tid: t.id, result: res}
	}()
}

func (s *sched) do(label string) string {
	var tid int
	fmt.Sscanf(label[1:], "%d", &tid)
	t := s.threads[tid]
	switch label[0] {
	case 's':
		s.current = tid
		s.startOp(t)
		end, woke := s.process(tid, true)
		return fmt.Sprintf("%s wake=%v", end, woke)
	case 'r':
		s.current = tid
		t.state, t.yieldAt = tRunning, ""
		t.grant <- struct{}{}
		end, woke := s.process(tid, true)
		return fmt.Sprintf("%s wake=%v", end, woke)
	case 'c':
		t.cancelled = true
		t.cancel()
		s.current = -1
		_, woke := s.process(tid, false)
		return fmt.Sprintf("ok wake=%v", woke)
	case 'f':
		for _, h := range t.helpers {
			if h.atGate && !h.fired {
				h.fired = true
				s.current = tid
				h.grant <- struct{}{}
				_, woke := s.processHelper(tid, h)
				return fmt.Sprintf("ok wake=%v", woke)
			}
		}
	}
	return "bad-action"
}

// processHelper waits for the fired helper's Broadcast and for everybody it wakes
func (s *sched) processHelper(tid int, h *schedHelper) (string, []int) {
	p := map[int]bool{}
	var woke []int
	done := false
	timer := time.NewTimer(s.timeout)
	defer timer.Stop()
	for {
		if done && len(p) == 0 {
			sort.Ints(woke)
			return "ok", woke
		}
		select {
		case ev := <-s.events:
			switch ev.kind {
			case evHelperDone:
				for _, w := range s.parked[ev.cond] {
					p[w] = true
				}
				s.parked[ev.cond] = nil
				done = true
			case evWoken:
				t := s.threads[ev.tid]
				t.state, t.parkedOn = tWoken, nil
				delete(p, ev.tid)
				woke = append(woke, ev.tid)
			case evSignal, evBroadcast:
				// Signal/Broadcast events carry no context (verifSig), so the ones emitted by goroutines
				// left over from the previous case (released and cancelled by its close()) arrive here;
				// they concern conditions of the previous subject, on which nobody of this case is parked
				if len(s.parked[ev.cond]) > 0 {
					s.note("unexpected-event-during-fire")
				}
			default:
				s.note(fmt.Sprintf("unexpected-event-during-fire:%d:%d", ev.kind, ev.tid))
			}
		case <-timer.C:
			schedTimeouts.Add(1)
			s.failed = "TIMEOUT(helper-fire)"
			return "timeout", woke
		}
	}
}

// run executes the choices, then drains with a fixed policy; returns the log line
// after this many missed arrival deadlines in one process the remaining scheduler cases are not
// run at all (they are reported as not judged): the hang is established, with replays
const schedGiveUp = 12

func (s *sched) run(choices []int, drainBound int) string {
	if schedTimeouts.Load() >= schedGiveUp {
		return "TIMEOUT-SKIP"
	}
	step := func(label string, en []string) bool {
		obs := s.do(label)
		s.log = append(s.log, fmt.Sprintf("{%s}%s=%s", strings.Join(en, ","), label, obs))
		return s.failed == ""
	}
	for _, c := range choices {
		en := s.enabled(true)
		if len(en) == 0 {
			break
		}
		if !step(en[c%len(en)], en) {
			return strings.Join(s.log, " ; ") + " ; " + s.failed
		}
	}
	for i := 0; i < drainBound; i++ {
		en := s.enabled(false)
		if len(en) == 0 {
			break
		}
		if !step(en[0], en) {
			return strings.Join(s.log, " ; ") + " ; " + s.failed
		}
	}
	var parked []string
	for _, t := range s.threads {
		switch t.state {
		case tParked:
			parked = append(parked, fmt.Sprintf("%d@%s", t.id, s.name(t.parkedOn)))
		case tWoken:
			parked = append(parked, fmt.Sprintf("%d@woken", t.id))
		}
	}
	s.log = append(s.log, fmt.Sprintf("final blocked=[%s] %s", strings.Join(parked, ","), s.subject.final()))
	return strings.Join(s.log, " ; ")
}

// runPP is run with the drain policy of Conc.drainPP (for subjects whose waiters signal before
// they park, pubsub.Deque): prefer starts, then helper fires, then the resume of a woken thread that
// has not been seen to park again since the last segment that returned; stop when only such
// re-parking resumes are left.
func (s *sched) runPP(choices []int, drainBound int) string {
	if schedTimeouts.Load() >= schedGiveUp {
		return "TIMEOUT-SKIP"
	}
	step := func(label string, en []string) (string, bool) {
		obs := s.do(label)
		s.log = append(s.log, fmt.Sprintf("{%s}%s=%s", strings.Join(en, ","), label, obs))
		return obs, s.failed == ""
	}
	for _, c := range choices {
		en := s.enabled(true)
		if len(en) == 0 {
			break
		}
		if _, ok := step(en[c%len(en)], en); !ok {
			return strings.Join(s.log, " ; ") + " ; " + s.failed
		}
	}
	checked := map[string]bool{}
	for i := 0; i < drainBound; i++ {
		en := s.enabled(false)
		pick := ""
		for _, kind := range []byte{'s', 'f', 'r'} {
			for _, a := range en {
				if a[0] == kind && !(kind == 'r' && checked[a[1:]]) {
					pick = a
					break
				}
			}
			if pick != "" {
				break
			}
		}
		if pick == "" {
			break
		}
		obs, ok := step(pick, en)
		if !ok {
			return strings.Join(s.log, " ; ") + " ; " + s.failed
		}
		switch pick[0] {
		case 'r':
			if strings.HasPrefix(obs, "park:") {
				checked[pick[1:]] = true
			} else {
				checked = map[string]bool{}
			}
		case 's':
			checked = map[string]bool{}
		}
	}
	return s.finish()
}

func (s *sched) finish() string {
	var parked []string
	for _, t := range s.threads {
		switch t.state {
		case tParked:
			parked = append(parked, fmt.Sprintf("%d@%s", t.id, s.name(t.parkedOn)))
		case tWoken:
			parked = append(parked, fmt.Sprintf("%d@woken", t.id))
		}
	}
	s.log = append(s.log, fmt.Sprintf("final blocked=[%s] %s", strings.Join(parked, ","), s.subject.final()))
	return strings.Join(s.log, " ; ")
}

func parsePrograms(s *Sexp) (programs [][]*Sexp, choices []int) {
	for _, x := range s.Args() {
		switch x.Head() {
		case "thread":
			programs = append(programs, x.Args())
		case "choices":
			for _, c := range x.Args() {
				choices = append(choices, c.Int())
			}
		}
	}
	return
}

// probeLostCancel forces the schedule "waiter has passed its select and is about to call
// cond.Wait; its context is cancelled; the helper goroutine runs": with a helper that broadcasts
// under the mutex the helper cannot finish before the waiter has parked, so the waiter is woken
// and returns. A helper that broadcasts without the mutex finishes while the waiter still holds
// it, the broadcast is lost and the waiter sleeps although its context is done.
func probeLostCancel(op func(ctx context.Context) string) string {
	s := newSched(nil, [][]*Sexp{{}})
	s.gatePrepark = true
	defer s.close()
	t := s.threads[0]
	base := context.WithValue(context.Background(), schedKeyT{}, schedID{s.epoch, 0})
	ctx, cancel := context.WithCancel(base)
	t.ctx, t.cancel = ctx, cancel
	go func() { s.events <- schedEvent{kind: evOpDone, tid: 0, result: op(ctx)} }()
	var helper *schedHelper
	wait := func(kind evKind, d time.Duration) bool {
		timer := time.NewTimer(d)
		defer timer.Stop()
		for {
			select {
			case ev := <-s.events:
				if ev.kind == evHelperSpawn {
					helperRegMu.Lock()
					helper = &schedHelper{hctx: ev.hctx, cond: ev.cond, grant: make(chan struct{}, 1)}
					t.helpers = append(t.helpers, helper)
					helperRegMu.Unlock()
				}
				if ev.kind == evWoken && kind != evWoken {
					// woken before we asked: hand the lock back at once
					t.grant <- struct{}{}
				}
				if ev.kind == kind {
					return true
				}
			case <-timer.C:
				return false
			}
		}
	}
	if !wait(evPrepark, 3*time.Second) {
		return "probe no-park"
	}
	cancel()
	if helper == nil || !wait(evHelperGate, 3*time.Second) {
		return "probe no-helper"
	}
	helper.grant <- struct{}{}
	unlocked := wait(evHelperDone, 300*time.Millisecond)
	t.grant <- struct{}{} // the waiter proceeds into cond.Wait
	returned := false
	if !unlocked {
		if wait(evHelperDone, 3*time.Second) && wait(evWoken, 3*time.Second) {
			t.grant <- struct{}{}
			returned = wait(evOpDone, 3*time.Second)
		}
	} else if wait(evWoken, 500*time.Millisecond) {
		t.grant <- struct{}{}
		returned = wait(evOpDone, 3*time.Second)
	}
	return fmt.Sprintf("probe unlocked=%s returned=%s", bit(unlocked), bit(returned))
}
