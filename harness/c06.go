package main

import (
	"context"
	"errors"
	"fmt"
	"io"
	"strings"

	"github.com/tychoish/fun"
	"github.com/tychoish/fun/pubsub"
)

// pubsub.Deque under the deterministic scheduler (C06, and the Deque halves of C07 / C20).

type c06subject struct {
	dq    *pubsub.Deque[int]
	iters map[string]fun.Producer[int]
}

func dqval(v int, err error) string {
	if err != nil {
		return qerr(err)
	}
	return fmt.Sprint(v)
}

func (c *c06subject) exec(ctx context.Context, tid int, op *Sexp) string {
	a := op.Args()
	h := op.Head()
	switch h {
	case "pushf":
		return qerr(c.dq.PushFront(a[0].Int()))
	case "pushb":
		return qerr(c.dq.PushBack(a[0].Int()))
	case "fpushf":
		return qerr(c.dq.ForcePushFront(a[0].Int()))
	case "fpushb":
		return qerr(c.dq.ForcePushBack(a[0].Int()))
	case "popf", "popb":
		var v int
		var ok bool
		if h == "popf" {
			v, ok = c.dq.PopFront()
		} else {
			v, ok = c.dq.PopBack()
		}
		if !ok {
			return "none"
		}
		return fmt.Sprint(v)
	case "waitf":
		return dqval(c.dq.WaitFront(ctx))
	case "waitb":
		return dqval(c.dq.WaitBack(ctx))
	case "wpushf":
		return qerr(c.dq.WaitPushFront(ctx, a[0].Int()))
	case "wpushb":
		return qerr(c.dq.WaitPushBack(ctx, a[0].Int()))
	case "len":
		return fmt.Sprint(c.dq.Len())
	case "close":
		return qerr(c.dq.Close())
	case "iter", "riter", "biter", "briter":
		key := h + ":" + a[0].Atom
		p, ok := c.iters[key]
		if !ok {
			switch h {
			case "iter":
				p = c.dq.Producer()
			case "riter":
				p = c.dq.ProducerReverse()
			case "biter":
				p = c.dq.ProducerBlocking()
			default:
				p = c.dq.ProducerReverseBlocking()
			}
			c.iters[key] = p
		}
		v, err := p(ctx)
		if err != nil {
			return qerr(err) // ErrQueueClosed -> "closed", io.EOF -> "eof"
		}
		return fmt.Sprint(v)
	}
	return "bad-op"
}

func (c *c06subject) final() string {
	// read the contents without removing anything, then find out whether the deque is closed
	items := []string{}
	p := c.dq.Producer()
	for i := 0; i < 1<<20; i++ {
		v, err := p(context.Background())
		if err != nil {
			if !errors.Is(err, io.EOF) {
				items = append(items, "err:"+err.Error())
			}
			break
		}
		items = append(items, fmt.Sprint(v))
	}
	n := c.dq.Len()
	closed := errors.Is(c.dq.PushBack(0), pubsub.ErrQueueClosed)
	return fmt.Sprintf("len=%d closed=%s items=[%s]", n, bit(closed), strings.Join(items, ","))
}

func dequeOptions(cfg *Sexp) (pubsub.DequeOptions, bool) {
	a := cfg.Args()
	qopts := func(x *Sexp) *pubsub.QueueOptions {
		if !x.IsLst {
			return nil
		}
		l := x.List
		return &pubsub.QueueOptions{HardLimit: l[1].Int(), SoftQuota: l[2].Int(), BurstCredit: float64(l[3].Int()) / float64(l[4].Int())}
	}
	switch a[0].Atom {
	case "unlimited":
		return pubsub.DequeOptions{Unlimited: true}, true
	case "cap":
		return pubsub.DequeOptions{Capacity: a[1].Int()}, true
	case "soft":
		return pubsub.DequeOptions{QueueOptions: &pubsub.QueueOptions{HardLimit: a[1].Int(), SoftQuota: a[2].Int(),
			BurstCredit: float64(a[3].Int()) / float64(a[4].Int())}}, true
	case "opts":
		return pubsub.DequeOptions{Unlimited: a[1].Int() != 0, Capacity: a[2].Int(), QueueOptions: qopts(a[3])}, true
	}
	return pubsub.DequeOptions{}, false
}

func c06case(s *Sexp) string {
	switch s.Head() {
	case "deque":
		var cfg *Sexp
		for _, x := range s.Args() {
			if x.Head() == "cfg" {
				cfg = x
			}
		}
		if cfg == nil {
			return "bad-op"
		}
		opts, ok := dequeOptions(cfg)
		if !ok {
			return "bad-op"
		}
		dq, err := pubsub.NewDeque[int](opts)
		if err != nil {
			return "malformed"
		}
		programs, choices := parsePrograms(s)
		sub := &c06subject{dq: dq, iters: map[string]fun.Producer[int]{}}
		sc := newSched(sub, programs)
		defer sc.close()
		return sc.runPP(choices, 400)
	case "dstress":
		return dstressCase(s)
	case "dequeopts":
		a := s.Args()
		opts, _ := dequeOptions(&Sexp{IsLst: true, List: []*Sexp{{Atom: "cfg"}, {Atom: "opts"}, a[0], a[1], a[2]}})
		dq, err := pubsub.NewDeque[int](opts)
		if err != nil {
			return "malformed"
		}
		n := 0
		for i := 0; i < 8; i++ {
			if dq.PushBack(0) != nil {
				break
			}
			n++
		}
		return fmt.Sprintf("ok accepts=%d", n)
	case "dqprobe":
		// the lost-cancel probe (D4) on the three kinds of blocking Deque operations
		switch s.List[1].Atom {
		case "wait":
			dq := pubsub.NewUnlimitedDeque[int]()
			return probeLostCancel(func(ctx context.Context) string { _, err := dq.WaitFront(ctx); return qerr(err) })
		case "wpush":
			dq, _ := pubsub.NewDeque[int](pubsub.DequeOptions{Capacity: 1})
			_ = dq.PushBack(1)
			return probeLostCancel(func(ctx context.Context) string { return qerr(dq.WaitPushBack(ctx, 2)) })
		case "iter":
			dq := pubsub.NewUnlimitedDeque[int]()
			p := dq.ProducerBlocking()
			return probeLostCancel(func(ctx context.Context) string { _, err := p(ctx); return qerr(err) })
		}
	}
	return "bad-op"
}

func queueOrDequeCase(s *Sexp) string {
	switch s.Head() {
	case "deque", "dequeopts", "dqprobe":
		return c06case(s)
	}
	return c05case(s)
}

func init() {
	handlers["C06"] = c06case
}
