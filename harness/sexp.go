package main

import (
	"fmt"
	"strconv"
	"strings"
)

// Sexp is the line protocol shared with the Lean driver: atoms and lists.
type Sexp struct {
	Atom  string
	List  []*Sexp
	IsLst bool
}

func (s *Sexp) String() string {
	if !s.IsLst {
		return s.Atom
	}
	parts := make([]string, len(s.List))
	for i, x := range s.List {
		parts[i] = x.String()
	}
	return "(" + strings.Join(parts, " ") + ")"
}

func parseSexp(line string) (*Sexp, error) {
	var stack [][]*Sexp
	top := []*Sexp{}
	cur := strings.Builder{}
	flush := func() {
		if cur.Len() > 0 {
			top = append(top, &Sexp{Atom: cur.String()})
			cur.Reset()
		}
	}
	for _, c := range line {
		switch c {
		case '(':
			flush()
			stack = append(stack, top)
			top = []*Sexp{}
		case ')':
			flush()
			if len(stack) == 0 {
				return nil, fmt.Errorf("unbalanced")
			}
			l := &Sexp{IsLst: true, List: top}
			top = append(stack[len(stack)-1], l)
			stack = stack[:len(stack)-1]
		case ' ', '\t', '\n', '\r':
			flush()
		default:
			cur.WriteRune(c)
		}
	}
	flush()
	if len(stack) != 0 || len(top) != 1 {
		return nil, fmt.Errorf("bad sexp")
	}
	return top[0], nil
}

func (s *Sexp) Head() string {
	if s.IsLst && len(s.List) > 0 && !s.List[0].IsLst {
		return s.List[0].Atom
	}
	return ""
}

func (s *Sexp) Int() int {
	n, err := strconv.Atoi(s.Atom)
	if err != nil || s.IsLst {
		panic(fmt.Sprintf("bad-int %v", s))
	}
	return n
}

func (s *Sexp) Int64() int64 {
	n, err := strconv.ParseInt(s.Atom, 10, 64)
	if err != nil || s.IsLst {
		panic(fmt.Sprintf("bad-int %v", s))
	}
	return n
}

func (s *Sexp) Args() []*Sexp {
	if !s.IsLst || len(s.List) == 0 {
		return nil
	}
	return s.List[1:]
}

func bit(b bool) string {
	if b {
		return "1"
	}
	return "0"
}
