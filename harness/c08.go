package main

// C08 / C09 — pubsub.Broker (T-out: behavioural tie at the API boundary).
//
//	(broker (backend chan C | queue unl | queue lim SOFT HARD CREDIT | deque unl | deque cap N | lifo N)
//	        (opts (parallel 0|1) (workers K) (buffer B))
//	        (script step…))
//
// The script is executed by ONE sequencer goroutine, step after step. No step uses a sleep or a
// wall-clock timeout to decide anything: a step that calls the broker's API runs the call in a
// goroutine and waits until the call has returned OR the whole process is quiescent (every other
// goroutine is parked on a channel / select / condition variable in a stop-the-world goroutine
// dump, so nothing can happen until the sequencer acts). A call that is still pending at
// quiescence is logged as blocked, its own context is cancelled and it must then return
// ("…return promptly once their own context is cancelled"). Deadlines (VERIF_SCHED_TIMEOUT_MS,
// seconds) only bound the search for quiescence; when one expires the observation carries
// (noquiesce 1), which every oracle treats as a hang.
//
// steps:
//
//	(sub S open|gated)   Subscribe; a goroutine then receives from the channel while S is open
//	(unsub S) (open S) (gate S)
//	(pub P n)            publisher P publishes its next n messages one after the other (id = 1000·P+seq)
//	(pubasync P n) (join P) (cancelpub P)
//	(stats) (statscancel) (statsrace)
//	(quiesce)            wait for quiescence and log it
//	(hold) (release)     park every dispatch worker between Distributor.Receive and reading the
//	                     subscriber map (hook Broker.dispatch.before-keys) / let them go
//	(stop) (cancel)      Broker.Stop / cancel the context the broker was built with
//	(wait) (waitasync) (joinwait)
//
// After the script: (final) release, open every subscriber, quiesce, Stats; (shutdown) Stop if
// not done, Wait, cancel and join everything the script left pending, then count the goroutines
// that still have a github.com/tychoish/fun frame (leak = count − count at case start, taken at
// quiescence).
//
// Observation: (obs (log (kind args… tick)…) (recv (S id tick id tick…)…) (leak N names…) (noquiesce 0|1))
// with one logical clock for every event.

import (
	"context"
	"fmt"
	"os"
	"regexp"
	"runtime"
	"sort"
	"strconv"
	"strings"
	"sync"
	"sync/atomic"
	"time"

	"github.com/tychoish/fun/pubsub"
)

type bcaseKey struct{}

type bsub struct {
	id    int
	ch    chan int
	cmd   chan bool
	ack   chan struct{}
	stopc chan struct{}
	done  chan struct{}
	got   []int // id, tick pairs; written by the subscriber goroutine under bcase.mu
}

type bpub struct {
	id     int
	ctx    context.Context
	cancel context.CancelFunc
	next   int
	done   chan struct{} // current batch (nil: none)
	cur    int           // sequence number in progress (under bcase.mu)
}

type bcall struct {
	id     int
	cancel context.CancelFunc
	done   chan struct{}
}

type bcase struct {
	mu  sync.Mutex
	clk int
	log []string

	b          *pubsub.Broker[int]
	rootCancel context.CancelFunc
	stopped    bool

	subs     map[int]*bsub
	subOrder []int
	pubs     map[int]*bpub
	waits    []*bcall
	nwait    int
	stops    []chan struct{}

	hookMu       sync.Mutex
	holdDispatch bool
	holdStats    bool
	parked       []chan struct{}

	probeReq atomic.Int64 // 0: no request; otherwise the number of the request
	probeGen int64
	probeCh  chan [2]int64 // (request number, verdict)

	noquiesce bool
	deadline  time.Duration
}

func (c *bcase) ev(kind string, args ...int) {
	c.mu.Lock()
	c.clk++
	var sb strings.Builder
	sb.WriteString("(" + kind)
	for _, a := range args {
		sb.WriteString(" " + strconv.Itoa(a))
	}
	sb.WriteString(" " + strconv.Itoa(c.clk) + ")")
	c.log = append(c.log, sb.String())
	c.mu.Unlock()
}

// ---- goroutine dump -------------------------------------------------------------------------

// Wait reasons that only another user goroutine can end. "semacquire" is deliberately absent: the
// runtime parks goroutines with that reason on its own semaphores too (a goroutine allocating
// while the world is being stopped for this very dump), and those resume by themselves.
var c08blocked = map[string]bool{
	"chan receive": true, "chan send": true, "select": true, "sync.Cond.Wait": true,
	"sync.Mutex.Lock": true, "sync.RWMutex.RLock": true, "sync.RWMutex.Lock": true,
	"chan receive (nil chan)": true, "chan send (nil chan)": true, "select (no cases)": true,
}

type c08ginfo struct {
	state   string
	fun     bool
	top     string
	waitpop bool // inside Deque.waitPop (the waiters there signal each other for ever, D28)
	seq     bool // the sequencer
}

var c08nameRe = regexp.MustCompile(`[^A-Za-z0-9_.]`)

// c08dump returns every goroutine but the caller (the first block of runtime.Stack(all))
func c08dump() []c08ginfo {
	buf := make([]byte, 1<<18)
	for {
		n := runtime.Stack(buf, true)
		if n < len(buf) {
			buf = buf[:n]
			break
		}
		buf = make([]byte, 2*len(buf))
	}
	blocks := strings.Split(string(buf), "\n\n")
	out := make([]c08ginfo, 0, len(blocks))
	for i, blk := range blocks {
		if i == 0 || !strings.HasPrefix(blk, "goroutine ") {
			continue
		}
		lb, rb := strings.IndexByte(blk, '['), strings.IndexByte(blk, ']')
		if lb < 0 || rb < lb {
			continue
		}
		st := blk[lb+1 : rb]
		if k := strings.IndexByte(st, ','); k >= 0 {
			st = st[:k]
		}
		g := c08ginfo{state: st, waitpop: strings.Contains(blk, ").waitPop("), seq: strings.Contains(blk, "main.(*bcase).poll(")}
		for _, line := range strings.Split(blk, "\n")[1:] {
			if strings.HasPrefix(line, "github.com/tychoish/fun") || strings.HasPrefix(line, "created by github.com/tychoish/fun") {
				g.fun = true
				if g.top == "" {
					l := strings.TrimPrefix(line, "created by ")
					if k := strings.LastIndexByte(l, '('); k > 0 && !strings.HasPrefix(line, "created by") {
						l = l[:k]
					}
					if k := strings.Index(l, " in goroutine"); k > 0 {
						l = l[:k]
					}
					if k := strings.LastIndexByte(l, '/'); k >= 0 {
						l = l[k+1:]
					}
					l = strings.ReplaceAll(l, "[...]", "")
					g.top = c08nameRe.ReplaceAllString(l, "")
				}
			}
		}
		out = append(out, g)
	}
	return out
}

func c08quiescent(gs []c08ginfo) bool {
	for _, g := range gs {
		if !c08blocked[g.state] {
			return false
		}
	}
	return true
}

// c08pingpong: everything is parked except goroutines inside Deque.waitPop. Two or more waiters
// of an empty Deque wake each other for ever (every pass of the wait loop signals the condition
// before waiting on it), so such a process never becomes quiescent in the plain sense. Whether
// the deque is empty cannot be read from a goroutine dump; it is established by a probe that
// runs inside the deque (see c08hook, "prepark").
func c08pingpong(gs []c08ginfo, inProbe bool) bool {
	some := false
	for _, g := range gs {
		if g.seq && inProbe {
			continue
		}
		if g.waitpop {
			some = true
			continue
		}
		if !c08blocked[g.state] {
			return false
		}
		// the probe runs while its goroutine holds the deque's mutex: a goroutine waiting for a
		// mutex may be waiting for that one (the event loop on its way into Deque.WaitPushBack /
		// ForcePushBack) and is then about to run
		if inProbe && strings.HasPrefix(g.state, "sync.") && g.state != "sync.Cond.Wait" {
			return false
		}
	}
	return some || inProbe
}

// probe asks the next Deque.waitPop waiter that is about to park (it holds the deque's mutex and
// has just found the deque empty) to take the goroutine dump itself: if at that instant every
// goroutine other than the waitPop waiters and the sequencer is parked, the process is quiescent
// for good (the waiters can only find the deque empty again).
func (c *bcase) probe() bool {
	c.probeGen++
	gen := c.probeGen
	c.probeReq.Store(gen)
	t := time.NewTimer(5 * time.Millisecond)
	defer t.Stop()
	for {
		select {
		case r := <-c.probeCh:
			if r[0] == gen { // the dump was taken after this request was posted
				return r[1] == 1
			}
		case <-t.C:
			c.probeReq.CompareAndSwap(gen, 0)
			return false
		}
	}
}

func c08deadline() time.Duration {
	if v, err := strconv.Atoi(os.Getenv("VERIF_SCHED_TIMEOUT_MS")); err == nil && v > 0 {
		return time.Duration(v) * time.Millisecond
	}
	return 10 * time.Second
}

// poll runs `done` (nil: never) and the quiescence test until one of them holds.
// Returns (done, quiescent); both false = the deadline expired.
func (c *bcase) poll(done <-chan struct{}) (bool, bool) {
	isDone := func() bool {
		if done == nil {
			return false
		}
		select {
		case <-done:
			return true
		default:
			return false
		}
	}
	start := time.Now()
	for i := 0; ; i++ {
		if isDone() {
			return true, false
		}
		gs := c08dump()
		if c08quiescent(gs) {
			// nothing else can run: the answer is final
			if isDone() {
				return true, false
			}
			return false, true
		}
		if c08pingpong(gs, false) && c.probe() {
			if isDone() {
				return true, false
			}
			return false, true
		}
		if time.Since(start) > c.deadline {
			c.noquiesce = true
			return isDone(), false
		}
		if i < 20 {
			runtime.Gosched()
		} else {
			d := time.Duration(i) * 10 * time.Microsecond
			if d > 2*time.Millisecond {
				d = 2 * time.Millisecond
			}
			time.Sleep(d)
		}
	}
}

func (c *bcase) waitFor(done <-chan struct{}) bool {
	d, _ := c.poll(done)
	return d
}

func (c *bcase) quiesce() {
	c.poll(nil)
}

// ---- hooks ----------------------------------------------------------------------------------

func c08hook(ctx context.Context, point string, args ...any) {
	if ctx == nil {
		return
	}
	c, ok := ctx.Value(bcaseKey{}).(*bcase)
	if !ok {
		return
	}
	if point == "prepark" {
		// a waiter of the deque, holding its mutex, about to cond.Wait
		if gen := c.probeReq.Load(); gen != 0 && len(args) == 2 && args[1] == "nfront" && c.probeReq.CompareAndSwap(gen, 0) {
			v := int64(0)
			if c08pingpong(c08dump(), true) {
				v = 1
			}
			select {
			case c.probeCh <- [2]int64{gen, v}:
			default:
			}
		}
		return
	}
	var hold bool
	c.hookMu.Lock()
	switch point {
	case "Broker.dispatch.before-keys":
		hold = c.holdDispatch
	case "Broker.stats.before-reply":
		hold = c.holdStats
	}
	var ch chan struct{}
	if hold {
		ch = make(chan struct{})
		c.parked = append(c.parked, ch)
	}
	c.hookMu.Unlock()
	if ch != nil {
		<-ch
	}
}

func (c *bcase) releaseHooks() {
	c.hookMu.Lock()
	c.holdDispatch, c.holdStats = false, false
	for _, ch := range c.parked {
		close(ch)
	}
	c.parked = nil
	c.hookMu.Unlock()
}

var c08hookOnce sync.Once

// ---- API calls ------------------------------------------------------------------------------

// syncCall: call / ret, or call / blocked / (own context cancelled) retx | stuck
func (c *bcase) syncCall(kind string, id []int, f func(ctx context.Context) []int) {
	ctx, cancel := context.WithCancel(context.Background())
	defer cancel()
	c.ev(kind+"c", id...)
	done := make(chan struct{})
	var res []int
	go func() { res = f(ctx); close(done) }()
	if c.waitFor(done) {
		c.ev(kind+"r", append(append([]int{}, id...), res...)...)
		return
	}
	c.ev(kind+"blocked", id...)
	cancel()
	if c.waitFor(done) {
		c.ev(kind+"x", id...)
	} else {
		c.ev(kind+"stuck", id...)
	}
}

func (s *bsub) run(c *bcase, open bool) {
	defer close(s.done)
	for {
		var rc <-chan int
		if open {
			rc = s.ch
		}
		select {
		case v := <-rc:
			c.mu.Lock()
			c.clk++
			s.got = append(s.got, v, c.clk)
			c.mu.Unlock()
		case o := <-s.cmd:
			open = o
			s.ack <- struct{}{}
		case <-s.stopc:
			return
		}
	}
}

func (c *bcase) setOpen(s *bsub, open bool) {
	if s == nil || s.ch == nil {
		return
	}
	s.cmd <- open
	<-s.ack
	if open {
		c.ev("open", s.id)
	} else {
		c.ev("gate", s.id)
	}
}

func (c *bcase) publisher(id int) *bpub {
	p, ok := c.pubs[id]
	if !ok {
		p = &bpub{id: id}
		c.pubs[id] = p
	}
	if p.ctx == nil || p.ctx.Err() != nil {
		p.ctx, p.cancel = context.WithCancel(context.Background())
	}
	return p
}

func (c *bcase) pubAsync(p *bpub, n int) {
	if p.done != nil {
		panic("bad-script: publisher has a batch in progress")
	}
	p.done = make(chan struct{})
	first := p.next
	p.next += n
	go func(done chan struct{}, ctx context.Context) {
		defer close(done)
		for seq := first; seq < first+n; seq++ {
			c.ev("pc", p.id, seq)
			c.b.Publish(ctx, 1000*p.id+seq)
			if ctx.Err() != nil {
				// returned with its own context cancelled: handed over or abandoned, not known
				c.ev("px", p.id, seq)
				return
			}
			c.ev("pr", p.id, seq)
		}
	}(p.done, p.ctx)
}

func (c *bcase) join(p *bpub) {
	if p.done == nil {
		return
	}
	if !c.waitFor(p.done) {
		c.ev("pblocked", p.id)
		p.cancel()
		if !c.waitFor(p.done) {
			c.ev("pstuck", p.id)
			return // the goroutine is lost; the publisher is not used again
		}
	}
	p.done = nil
}

func (c *bcase) joinWait(w *bcall) {
	if c.waitFor(w.done) {
		return
	}
	c.ev("wblocked", w.id)
	w.cancel()
	if !c.waitFor(w.done) {
		c.ev("wstuck", w.id)
	}
}

func (c *bcase) startWait() *bcall {
	ctx, cancel := context.WithCancel(context.Background())
	c.nwait++
	w := &bcall{id: c.nwait, cancel: cancel, done: make(chan struct{})}
	c.ev("wc", w.id)
	go func() {
		defer close(w.done)
		c.b.Wait(ctx)
		if ctx.Err() != nil {
			c.ev("wx", w.id)
		} else {
			c.ev("wr", w.id)
		}
	}()
	return w
}

func (c *bcase) stop() {
	c.ev("stopc")
	done := make(chan struct{})
	go func() { defer close(done); c.b.Stop(); c.ev("stopr") }()
	if !c.waitFor(done) {
		c.ev("stopblocked")
		c.stops = append(c.stops, done)
	}
	c.stopped = true
}

func (c *bcase) step(st *Sexp) {
	a := st.Args()
	switch st.Head() {
	case "sub":
		id := a[0].Int()
		s := &bsub{id: id, cmd: make(chan bool), ack: make(chan struct{}), stopc: make(chan struct{}), done: make(chan struct{})}
		c.subs[id] = s
		c.subOrder = append(c.subOrder, id)
		c.syncCall("s", []int{id}, func(ctx context.Context) []int {
			s.ch = c.b.Subscribe(ctx)
			return nil
		})
		if s.ch == nil {
			c.ev("snil", id)
			close(s.done)
			return
		}
		open := a[1].Atom == "open"
		go s.run(c, open)
		if open {
			c.ev("open", id)
		} else {
			c.ev("gate", id)
		}
	case "unsub":
		s := c.subs[a[0].Int()]
		if s == nil || s.ch == nil {
			return
		}
		c.syncCall("u", []int{s.id}, func(ctx context.Context) []int {
			c.b.Unsubscribe(ctx, s.ch)
			return nil
		})
	case "open":
		c.setOpen(c.subs[a[0].Int()], true)
	case "gate":
		c.setOpen(c.subs[a[0].Int()], false)
	case "pub":
		p := c.publisher(a[0].Int())
		c.pubAsync(p, a[1].Int())
		c.join(p)
	case "pubasync":
		c.pubAsync(c.publisher(a[0].Int()), a[1].Int())
	case "join":
		if p := c.pubs[a[0].Int()]; p != nil {
			c.join(p)
		}
	case "cancelpub":
		if p := c.pubs[a[0].Int()]; p != nil && p.cancel != nil {
			c.ev("pcancel", p.id)
			p.cancel()
		}
	case "stats":
		c.syncCall("t", nil, func(ctx context.Context) []int {
			st := c.b.Stats(ctx)
			return []int{st.Subscriptions, st.BufferDepth}
		})
	case "statscancel":
		ctx, cancel := context.WithCancel(context.Background())
		cancel()
		c.syncCall("tc", nil, func(context.Context) []int { c.b.Stats(ctx); return nil })
	case "statsrace":
		// the reply of an accepted Stats request races with the caller's context: park the event
		// loop just before it replies, cancel the caller, let the loop go on
		c.hookMu.Lock()
		c.holdStats = true
		c.hookMu.Unlock()
		ctx, cancel := context.WithCancel(context.Background())
		done := make(chan struct{})
		c.ev("trc")
		go func() { defer close(done); c.b.Stats(ctx) }()
		c.quiesce()
		cancel()
		if c.waitFor(done) {
			c.ev("trr")
		} else {
			c.ev("tstuck")
		}
		c.hookMu.Lock()
		c.holdStats = false
		for _, ch := range c.parked {
			close(ch)
		}
		c.parked = nil
		c.hookMu.Unlock()
	case "quiesce":
		c.quiesce()
		c.ev("quiet")
	case "hold":
		c.hookMu.Lock()
		c.holdDispatch = true
		c.hookMu.Unlock()
		c.ev("hold")
	case "release":
		c.releaseHooks()
		c.ev("release")
	case "stop":
		c.stop()
	case "cancel":
		c.ev("cancelc")
		c.rootCancel()
		c.stopped = true
	case "wait":
		c.joinWait(c.startWait())
	case "waitasync":
		c.waits = append(c.waits, c.startWait())
	case "joinwait":
		if len(c.waits) > 0 {
			w := c.waits[0]
			c.waits = c.waits[1:]
			c.joinWait(w)
		}
	default:
		panic("bad-step " + st.Head())
	}
}

func c08arg(s *Sexp, name string) *Sexp {
	for _, x := range s.List[1:] {
		if x.Head() == name {
			return x
		}
	}
	panic("missing " + name)
}

func c08funCount(gs []c08ginfo) (int, []string) {
	n := 0
	var names []string
	for _, g := range gs {
		if g.fun {
			n++
			names = append(names, g.top)
		}
	}
	sort.Strings(names)
	return n, names
}

func c08case(s *Sexp) string {
	if s.Head() != "broker" {
		return "bad-op"
	}
	c08hookOnce.Do(func() { pubsub.VerifSetHook(c08hook) })
	if dbg := os.Getenv("VERIF_C08_HANGDUMP"); dbg != "" {
		fin := make(chan struct{})
		defer close(fin)
		go func() {
			select {
			case <-fin:
			case <-time.After(15 * time.Second):
				buf := make([]byte, 1<<20)
				n := runtime.Stack(buf, true)
				_ = os.WriteFile(fmt.Sprintf("%s-%d.txt", dbg, time.Now().UnixNano()), append([]byte(s.String()+"\n"), buf[:n]...), 0o644)
			}
		}()
	}
	c := &bcase{subs: map[int]*bsub{}, pubs: map[int]*bpub{}, deadline: c08deadline(), probeCh: make(chan [2]int64, 4)}
	// leftovers of earlier cases in this process
	c.quiesce()
	base, baseNames := c08funCount(c08dump())

	opts := c08arg(s, "opts")
	bo := pubsub.BrokerOptions{
		ParallelDispatch: c08arg(opts, "parallel").List[1].Int() == 1,
		WorkerPoolSize:   c08arg(opts, "workers").List[1].Int(),
		BufferSize:       c08arg(opts, "buffer").List[1].Int(),
	}
	root, cancel := context.WithCancel(context.WithValue(context.Background(), bcaseKey{}, c))
	c.rootCancel = cancel
	be := c08arg(s, "backend").Args()
	switch be[0].Atom {
	case "chan":
		c.b = pubsub.MakeDistributorBroker(root, pubsub.DistributorChannel(make(chan int, be[1].Int())), bo)
	case "queue":
		if be[1].Atom == "unl" {
			c.b = pubsub.NewQueueBroker(root, pubsub.NewUnlimitedQueue[int](), bo)
		} else {
			q, err := pubsub.NewQueue[int](pubsub.QueueOptions{SoftQuota: be[2].Int(), HardLimit: be[3].Int(), BurstCredit: float64(be[4].Int())})
			if err != nil {
				cancel()
				return "bad-config " + err.Error()
			}
			c.b = pubsub.NewQueueBroker(root, q, bo)
		}
	case "deque":
		if be[1].Atom == "unl" {
			c.b = pubsub.NewDequeBroker(root, pubsub.NewUnlimitedDeque[int](), bo)
		} else {
			dq, err := pubsub.NewDeque[int](pubsub.DequeOptions{Capacity: be[2].Int()})
			if err != nil {
				cancel()
				return "bad-config " + err.Error()
			}
			c.b = pubsub.NewDequeBroker(root, dq, bo)
		}
	case "lifo":
		c.b = pubsub.NewLIFOBroker[int](root, bo, be[1].Int())
	default:
		cancel()
		return "bad-op"
	}

	for _, st := range c08arg(s, "script").Args() {
		c.step(st)
	}

	// ---- final: everything the subscribers can still get -------------------------------------
	c.ev("final")
	c.releaseHooks()
	for _, id := range c.subOrder {
		c.setOpen(c.subs[id], true)
	}
	c.quiesce()
	c.ev("quiet")
	if !c.stopped {
		c.step(&Sexp{IsLst: true, List: []*Sexp{{Atom: "stats"}}})
	}

	// ---- shutdown ---------------------------------------------------------------------------
	c.ev("shutdown")
	if !c.stopped {
		c.stop()
	}
	c.joinWait(c.startWait())
	for _, w := range c.waits {
		c.joinWait(w)
	}
	c.waits = nil
	for _, d := range c.stops {
		if c.waitFor(d) {
			c.ev("stoplate")
		} else {
			c.ev("stopstuck")
		}
	}
	c.rootCancel()
	pids := make([]int, 0, len(c.pubs))
	for id := range c.pubs {
		pids = append(pids, id)
	}
	sort.Ints(pids)
	for _, id := range pids {
		c.join(c.pubs[id])
		if c.pubs[id].cancel != nil {
			c.pubs[id].cancel()
		}
	}
	// leak check while the subscribers are still receiving
	leak, names := 0, []string(nil)
	start := time.Now()
	for {
		gs := c08dump()
		n, nm := c08funCount(gs)
		if n <= base {
			break
		}
		if c08quiescent(gs) {
			leak = n - base
			// names of the extra goroutines (multiset difference with the base line)
			rest := append([]string{}, baseNames...)
			for _, x := range nm {
				found := false
				for i, y := range rest {
					if x == y {
						rest = append(rest[:i], rest[i+1:]...)
						found = true
						break
					}
				}
				if !found {
					names = append(names, x)
				}
			}
			break
		}
		if time.Since(start) > c.deadline {
			c.noquiesce = true
			break
		}
		time.Sleep(200 * time.Microsecond)
	}
	for _, id := range c.subOrder {
		s := c.subs[id]
		if s.ch != nil {
			close(s.stopc)
			<-s.done
		}
	}

	var sb strings.Builder
	sb.WriteString("(obs (log")
	c.mu.Lock()
	for _, e := range c.log {
		sb.WriteString(" " + e)
	}
	sb.WriteString(") (recv")
	for _, id := range c.subOrder {
		sb.WriteString(fmt.Sprintf(" (%d", id))
		for _, v := range c.subs[id].got {
			sb.WriteString(" " + strconv.Itoa(v))
		}
		sb.WriteString(")")
	}
	c.mu.Unlock()
	sb.WriteString(fmt.Sprintf(") (leak %d", leak))
	for _, n := range names {
		sb.WriteString(" " + n)
	}
	sb.WriteString(fmt.Sprintf(") (noquiesce %s))", bit(c.noquiesce)))
	return sb.String()
}

func init() {
	handlers["C08"] = c08case
	handlers["C09"] = c08case
}
