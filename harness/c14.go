package main

import (
	"context"
	"fmt"
	"runtime"
	"strings"
	"sync/atomic"
	"time"

	"github.com/tychoish/fun"
)

type c14subject struct{ wg *fun.WaitGroup }

func (c *c14subject) exec(ctx context.Context, tid int, op *Sexp) (out string) {
	defer func() {
		if r := recover(); r != nil {
			out = "panic"
		}
	}()
	switch op.Head() {
	case "add":
		c.wg.Add(op.List[1].Int())
		return "ok"
	case "done":
		c.wg.Done()
		return "ok"
	case "wait":
		c.wg.Wait(ctx)
		return "ok"
	case "num":
		return fmt.Sprint(c.wg.Num())
	case "isdone":
		return bit(c.wg.IsDone())
	}
	return "bad-op"
}

func (c *c14subject) final() string { return fmt.Sprintf("num=%d", c.wg.Num()) }

func c14case(s *Sexp) string {
	if s.Head() == "wgprobe" {
		wg := &fun.WaitGroup{}
		wg.Add(1)
		return probeLostCancel(func(ctx context.Context) string { wg.Wait(ctx); return "ok" })
	}
	if s.Head() == "wgacct" {
		return wgAcctCase(s)
	}
	if s.Head() == "wgstress" {
		return wgStressCase(s)
	}
	if s.Head() != "wg" {
		return "bad-op"
	}
	programs, choices := parsePrograms(s)
	sub := &c14subject{wg: &fun.WaitGroup{}}
	sc := newSched(sub, programs)
	defer sc.close()
	out := sc.run(choices, 200)
	return strings.ReplaceAll(out, "\n", " ")
}

// (wgacct (via launch|dotimes|opadd|startgroup) (kinds ret|goexit ...)): the goroutines started through the
// WaitGroup's launch helpers are accounted for while they run and when they end, however they end
// (an operation that leaves through runtime.Goexit — what t.Fatal/t.SkipNow do — still counts as done).
var acctStuck atomic.Int64

func wgAcctCase(s *Sexp) string {
	via := sxStr(s, "via")
	var kinds []string
	for _, x := range s.Args() {
		if x.Head() == "kinds" {
			for _, k := range x.List[1:] {
				kinds = append(kinds, k.Atom)
			}
		}
	}
	n := len(kinds)
	wg := &fun.WaitGroup{}
	ctx, cancel := context.WithCancel(context.Background())
	defer cancel()
	// (ctx dead): the context handed to the launch helper has already ended. The operations are started
	// all the same (the helpers do not look at the context; the operations here ignore it too), so the
	// accounting must be the same as with a live context.
	lctx := ctx
	if sxStr(s, "ctx") == "dead" {
		var lcancel context.CancelFunc
		lctx, lcancel = context.WithCancel(ctx)
		lcancel()
	}
	gate := make(chan struct{})
	started := make(chan int, n)
	exited := make(chan int, n)
	var next atomic.Int64
	op := fun.Operation(func(context.Context) {
		idx := int(next.Add(1)) - 1
		defer func() { exited <- idx }()
		started <- idx
		<-gate
		if idx < n && kinds[idx] == "goexit" {
			runtime.Goexit()
		}
	})
	switch via {
	case "launch":
		for i := 0; i < n; i++ {
			wg.Launch(lctx, op)
		}
	case "dotimes":
		wg.DoTimes(lctx, n, op)
	case "opadd":
		for i := 0; i < n; i++ {
			op.Add(lctx, wg)
		}
	case "startgroup":
		op.StartGroup(lctx, wg, n)
	default:
		return "bad-op"
	}
	nstarted := 0
	for i := 0; i < n; i++ {
		select {
		case <-started:
			nstarted++
		case <-time.After(5 * time.Second): // only a helper that did not start its operations gets here
			i = n
		}
	}
	running := wg.Num()
	close(gate)
	for i := 0; i < nstarted; i++ {
		<-exited
	}
	if nstarted != n {
		return fmt.Sprintf("acct n=%d started=%d running=%d (not every operation was started)", n, nstarted, running)
	}
	// the deferred Done of each goroutine runs right after its `exited` message: wait for the
	// counter to drain (generous deadline; only a lost Done makes this expire)
	deadline := 8 * time.Second
	if acctStuck.Load() > 0 {
		deadline = time.Second // a lost Done is already established in this process
	}
	wctx, wcancel := context.WithTimeout(ctx, deadline)
	wg.Wait(wctx)
	stuck := wctx.Err() != nil
	wcancel()
	if stuck {
		acctStuck.Add(1)
	}
	return fmt.Sprintf("acct n=%d running=%d after=%d waitstuck=%s", n, running, wg.Num(), bit(stuck))
}

// (wgstress (rounds R) (waiters W)): R rounds of "counter 1; W goroutines enter Wait with a live
// context while another goroutine calls Done": every Wait must return (a Done that lands while a
// waiter is between looking at the counter and parking must not be lost). Free-running.
func wgStressCase(s *Sexp) string {
	rounds, waiters := sxInt(s, "rounds", 20000), sxInt(s, "waiters", 2)
	if p := runtime.GOMAXPROCS(0); p < 4 {
		defer runtime.GOMAXPROCS(runtime.GOMAXPROCS(4))
	}
	for r := 0; r < rounds; r++ {
		wg := &fun.WaitGroup{}
		wg.Add(1)
		ctx, cancel := context.WithCancel(context.Background())
		done := make(chan struct{}, waiters)
		start := make(chan struct{})
		for w := 0; w < waiters; w++ {
			go func() {
				<-start
				wg.Wait(ctx)
				done <- struct{}{}
			}()
		}
		go func() {
			<-start
			wg.Done()
		}()
		close(start)
		for w := 0; w < waiters; w++ {
			select {
			case <-done:
			case <-time.After(12 * time.Second):
				cancel()
				return fmt.Sprintf("stress stuck=1 round=%d num=%d", r, wg.Num())
			}
		}
		cancel()
	}
	return "stress stuck=0"
}

func init() {
	handlers["C14"] = c14case
	fun.VerifSetHook(schedHook)
}
