package main

import (
	"context"
	"fmt"
	"strings"

	"github.com/tychoish/fun"
)

type c14subject struct{ wg *fun.WaitGroup }

func (c *c14subject) exec(ctx context.Context, tid int, op *Sexp) (out string) {
	defer func() {
		if r := recover(); r != nil {
			out = "panic"
		}
	}()
	switch op.Head() {
	case "add":
		c.wg.Add(op.List[1].Int())
		return "ok"
	case "done":
		c.wg.Done()
		return "ok"
	case "wait":
		c.wg.Wait(ctx)
		return "ok"
	case "num":
		return fmt.Sprint(c.wg.Num())
	case "isdone":
		return bit(c.wg.IsDone())
	}
	return "bad-op"
}

func (c *c14subject) final() string { return fmt.Sprintf("num=%d", c.wg.Num()) }

func c14case(s *Sexp) string {
	if s.Head() == "wgprobe" {
		wg := &fun.WaitGroup{}
		wg.Add(1)
		return probeLostCancel(func(ctx context.Context) string { wg.Wait(ctx); return "ok" })
	}
	if s.Head() != "wg" {
		return "bad-op"
	}
	programs, choices := parsePrograms(s)
	sub := &c14subject{wg: &fun.WaitGroup{}}
	sc := newSched(sub, programs)
	defer sc.close()
	out := sc.run(choices, 200)
	return strings.ReplaceAll(out, "\n", " ")
}

func init() {
	handlers["C14"] = c14case
	fun.VerifSetHook(schedHook)
}
