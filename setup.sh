#!/bin/sh
# Build the framework from files on disk only (offline): Lean project (models, proofs, driver) and the Go harness.
set -e
cd "$(dirname "$0")"
export GOFLAGS=-mod=mod GOPROXY=off GOSUMDB=off GOTOOLCHAIN=local
mkdir -p .work/bin evidence replays
(cd lean && lake build)
cp /repo/go.sum harness/go.sum 2>/dev/null || true
(cd harness && CGO_ENABLED=0 go build -tags verif -o ../.work/bin/harness .)
echo setup ok
