"""C16 — dt.List / dt.Stack against a sequence model. A case: (seq op...); after every op the
implementation and the Lean pointer-level model print the op's result and a dump of all containers
(Len, forward walk, backward walk) and handles (Ok, Value, In)."""
from . import common as C
from .seqref import Ref, Unspecified

PROP = "C16"
LEVEL = "proof"
RULE = ("operation sequences (<=40 ops quick, <=300 thorough) over two lists (+copies) and two stacks; handles drawn from "
        "every element/item ever returned (attached, detached, popped, dropped, root/sentinel, nil), positions biased to "
        "front/back/adjacent/self; after every op both walks, Len, Slice/iterators, In/Ok/Value of all handles are compared. "
        "Non-trivial: >=6 ops with at least one rejected or handle-based op; distinct = distinct case lines.")
TRUSTED = ["encoding/json on ints ([a,b,c] text) is modelled as string formatting"]
ASSUMPTIONS = ["Extend(l, l) (a list extended with itself) never terminates in the implementation: open finding dt.List.Extend:self, confirmed by its witness on every run; the generator does not emit that shape",
               "methods are not called on nil receivers (Go would panic) except Element.In, which is documented for a nil element; otherwise nil is used as an argument only",
               "next/prev are only requested from attached elements or roots (detached elements keep stale pointers)"]

KEY_SWAP = "dt.Element.Swap:any"
KEY_SRM_HEAD = "dt.Item.Remove:head-item"
KEY_EXT_SELF = "dt.List.Extend:self"


class Gen:
    def __init__(self, rng, nops, open_keys, weights=None):
        self.rng, self.nops, self.open = rng, nops, open_keys
        self.ref = Ref()
        self.ops = []
        self.w = weights or {}

    def emit(self, op):
        try:
            self.ref.step(op)
        except Unspecified:
            return False
        self.ops.append(op)
        return True

    def attached_elems(self, l=None):
        return [f"e{i}" for i, e in enumerate(self.ref.elems) if e is not None and e.owner is not None and not e.is_root
                and (l is None or e.owner is l)]

    def any_elem(self):
        r = self.rng
        n = len(self.ref.elems)
        if n == 0 or r.random() < 0.05:
            return "nil"
        return f"e{r.randrange(n)}"

    def nonnil_elem(self):
        c = [f"e{i}" for i, e in enumerate(self.ref.elems) if e is not None]
        return self.rng.choice(c) if c else None

    def run(self, lists=True, stacks=True):
        r = self.rng
        if lists:
            self.emit(["newlist"]); self.emit(["newlist"])
        if stacks:
            self.emit(["newstack"]); self.emit(["newstack"])
        for _ in range(self.nops):
            if lists and (not stacks or r.random() < 0.65):
                self.list_op()
            else:
                self.stack_op()
        return C.sx(["seq"] + self.ops)

    def list_op(self):
        r, ref = self.rng, self.ref
        L = f"L{r.randrange(len(ref.lists))}"
        v = r.randrange(-20, 21)
        k = r.random()
        if k < 0.18:
            self.emit([r.choice(["pf", "pb"]), L, v])
        elif k < 0.26:
            self.emit([r.choice(["popf", "popb"]), L])
        elif k < 0.33:
            self.emit([r.choice(["front", "back"]), L])
        elif k < 0.36:
            self.emit(["le", v])
        elif k < 0.46:
            e = self.nonnil_elem()
            if e:
                self.emit([r.choice(["next", "prev"]), e])
        elif k < 0.60:
            e = self.nonnil_elem()
            if e:
                self.emit(["app", e, self.any_elem()])
        elif k < 0.70:
            e = self.nonnil_elem()
            if e:
                self.emit([r.choice(["rm", "rm", "drop"]), e])
        elif k < 0.74:
            e = self.nonnil_elem()
            if e:
                self.emit(["set", e, v])
        elif k < 0.79:
            e = self.nonnil_elem()
            if e and KEY_SWAP not in self.open:
                self.emit(["swap", e, self.any_elem()])
            elif e:
                # Swap is an open finding: only its rejected forms are exercised by the main stream
                w = self.any_elem()
                ee, ww = ref.E(e), ref.E(w)
                if ww is None or ee.owner is None or ee.owner is not ww.owner or ee is ww:
                    self.emit(["swap", e, w])
        elif k < 0.83:
            M = f"L{r.randrange(len(ref.lists))}"
            if M != L:
                self.emit(["ext", L, M])
        elif k < 0.85 and len(ref.lists) < 4:
            self.emit(["copy", L])
        elif k < 0.89:
            self.emit([r.choice(["sortm", "sortq"]), L, r.choice(["lt", "gt", "key"])])
        elif k < 0.92:
            self.emit(["sorted", L, r.choice(["lt", "gt", "key"])])
        elif k < 0.96:
            self.emit([r.choice(["iter", "riter", "json", "iter", "riter", "piter", "rpiter"]), L])
        else:
            self.emit(["unjson", L, [("null" if r.random() < 0.2 else r.randrange(-20, 21)) for _ in range(r.randrange(0, 4))]])

    def stack_op(self):
        r, ref = self.rng, self.ref
        S = f"S{r.randrange(len(ref.stacks))}"
        v = r.randrange(-20, 21)
        k = r.random()
        items = [f"i{i}" for i, it in enumerate(ref.items) if it is not None]
        if k < 0.02 and len(ref.stacks) < 4:
            self.emit(["nspop"])
        elif k < 0.25:
            self.emit(["push", S, v])
        elif k < 0.37:
            self.emit(["spop", S])
        elif k < 0.45:
            self.emit(["head", S])
        elif k < 0.50:
            self.emit(["si", v])
        elif k < 0.58 and items:
            self.emit(["snext", r.choice(items)])
        elif k < 0.70 and items:
            self.emit(["sapp", r.choice(items), r.choice(items + ["nil"])])
        elif k < 0.82 and items:
            i = r.choice(items)
            it = ref.I(i)
            if KEY_SRM_HEAD in self.open and it.owner is not None and it.owner.xs and it.owner.xs[0] is it:
                return
            self.emit(["srm", i])
        elif k < 0.86 and items:
            self.emit(["sset", r.choice(items), v])
        elif k < 0.94:
            self.emit([r.choice(["siter", "sjson", "siter", "spiter"]), S])
        else:
            self.emit(["sunjson", S, [("null" if r.random() < 0.2 else r.randrange(-20, 21)) for _ in range(r.randrange(0, 4))]])


def gen(rng, tier, open_keys):
    n = 1500 if tier == "quick" else 12000
    out = []
    for i in range(n):
        nops = rng.choice([3, 8, 15, 25, 40]) if tier == "quick" else rng.choice([8, 25, 60, 150, 300])
        g = Gen(rng, nops, open_keys)
        out.append(g.run(lists=(i % 4 != 3), stacks=(i % 4 != 0)))
    return out


def corpus():
    return [
        # D12: appending an element that already belongs to a list must be rejected
        "(seq (newlist) (newlist) (pb L0 1) (pb L0 2) (pb L1 10) (pb L1 20) (front L0) (next e0) (front L1) (app e2 e1))",
        "(seq (newlist) (pb L0 1) (pb L0 2) (pb L0 3) (front L0) (back L0) (app e1 e0))",
        # D16: removing a non-head item must unlink it
        "(seq (newstack) (push S0 1) (push S0 2) (push S0 3) (head S0) (snext i0) (srm i1) (siter S0) (sjson S0))",
        "(seq (newlist) (unjson L0 (1 2 3)) (json L0) (piter L0) (popf L0) (rpiter L0))",
        "(seq (newlist) (unjson L0 (1 null 3)) (json L0) (iter L0) (riter L0))",
        # Element.In on the nil handle (Next of an element that was never in a list) is documented false
        "(seq (newlist) (newlist) (le 1) (next e0) (pb L0 3) (prev e0) (back L0) (app e3 e0) (next e0))",
        # Pop on a zero-value stack must not disable later pushes
        "(seq (nspop) (push S0 1) (push S0 2) (siter S0))",
    ]


def known_witnesses():
    return {
        KEY_SWAP: ["(seq (newlist) (pb L0 1) (pb L0 2) (pb L0 3) (pb L0 4) (front L0) (back L0) (swap e0 e1))"],
        KEY_SRM_HEAD: ["(seq (newstack) (push S0 1) (push S0 2) (head S0) (srm i0) (siter S0))"],
        KEY_EXT_SELF: ["(seq (newlist) (pb L0 1) (pb L0 2) (pb L0 3) (ext L0 L0))"],
    }


def predicate(line, obs, allow_known=False):
    t = C.parse_sx(line)
    ops = t[1:]
    outs = obs.split(" ; ")
    ref = Ref()
    for i, op in enumerate(ops):
        if i >= len(outs):
            return f"no observation for op {i} {C.sx(op)}"
        o = outs[i]
        if o.startswith("INSTANCE-MISMATCH"):
            return f"op {i} {C.sx(op)}: {o[18:300]}"
        if o.startswith("HANG"):
            return f"op {i} {C.sx(op)} never returns (no result after 5 s; the loop of Extend pops from the list it appends to)"
        if o.startswith("PANIC"):
            return f"op {i} {C.sx(op)} panicked"
        if o.startswith("bad-op"):
            return f"op {i} {C.sx(op)} was not understood by the harness"
        try:
            want_r = ref.step(op)
        except Unspecified:
            return None
        want = want_r + " " + ref.dump()
        o = mask_sentinels(o, want)
        if o != want:
            if op[0] == "sortm":
                # only permutation + sortedness is promised for SortMerge; if the implementation's
                # order differs from the stable one but is a sorted permutation, stop constraining
                got = o.split(" ", 1)
                if sortm_ok(ref, op, got):
                    return None
            return (f"op {i} {C.sx(op)}: implementation shows `{diff_part(o, want)[0]}` but the sequence model "
                    f"says `{diff_part(o, want)[1]}`")
    return None


def mask_sentinels(got, want):
    """the reference prints `*` for bottom sentinels: copy that mask onto the observation"""
    if "*" not in want or " I[" not in got or " I[" not in want:
        return got
    gh, gi = got.rsplit(" I[", 1)
    wi = want.rsplit(" I[", 1)[1]
    gparts, wparts = gi[:-1].split(" "), wi[:-1].split(" ")
    if len(gparts) != len(wparts):
        return got
    return gh + " I[" + " ".join("*" if w == "*" else g for g, w in zip(gparts, wparts)) + "]"


def sortm_ok(ref, op, got):
    try:
        li = int(op[1][1:])
        lpart = got[1].split("] ")[0][2:].split(" ")[li]
        ln, fwd, bwd = lpart.split("|")
        f = [int(x) for x in fwd.split(":")[0].split(",") if x]
        b = [int(x) for x in bwd.split(":")[0].split(",") if x]
        want = [e.val for e in ref.lists[li].xs]
        from .seqref import lt_of
        lt = lt_of(op[2])
        return (sorted(f) == sorted(want) and f == b[::-1] and int(ln) == len(f) and fwd.endswith(":end")
                and all(not lt(f[i + 1], f[i]) for i in range(len(f) - 1)) and f != want)
    except Exception:
        return False


def diff_part(got, want):
    g, w = got.split(" "), want.split(" ")
    for a, b in zip(g, w):
        if a != b:
            return a, b
    return got[-80:], want[-80:]


def nontrivial(line, obs):
    t = C.parse_sx(line)
    return len(t) > 7 and any(op[0] in ("app", "rm", "drop", "swap", "srm", "sapp", "ext", "next", "prev", "snext") for op in t[1:])


def features(line, obs):
    t = C.parse_sx(line)
    f = [f"nops:{(len(t) - 1) // 10 * 10}"]
    for op in t[1:]:
        f.append("op:" + op[0])
    if obs and "PANIC" in obs:
        f.append("obs:panic")
    return f


def shrink(line, fails):
    t = C.parse_sx(line)
    ops = t[1:]

    def valid(sub):
        # handles are positional: a subsequence is only meaningful if the reference can still run it
        ref = Ref()
        try:
            for op in sub:
                ref.step(op)
            return True
        except (Unspecified, IndexError, ValueError, AttributeError, TypeError, KeyError):
            return False
    # removing an op renumbers later handles, so only truncation and removal of ops that register
    # no handle are tried
    best = ops
    for n in range(1, len(ops) + 1):
        if fails(C.sx(["seq"] + ops[:n])):
            best = ops[:n]
            break
    reg = ("le", "popf", "popb", "front", "back", "next", "prev", "app", "si", "spop", "head", "snext", "sapp",
           "newlist", "newstack", "copy", "nspop")
    i = len(best) - 2
    budget = 120
    while i >= 0 and budget > 0:
        if best[i][0] not in reg:
            cand = best[:i] + best[i + 1:]
            budget -= 1
            if valid(cand) and fails(C.sx(["seq"] + cand)):
                best = cand
        i -= 1
    return C.sx(["seq"] + best)


def classify(line, obs, why):
    if "never returns" in why and "(ext " in why:
        return KEY_EXT_SELF
    if "(swap " in why:
        return KEY_SWAP
    if "(srm " in why:
        # is the removed item the head of its stack?
        t = C.parse_sx(line)
        ref = Ref()
        for op in t[1:]:
            if op[0] == "srm":
                it = ref.I(op[1])
                if it is not None and it.owner is not None and it.owner.xs and it.owner.xs[0] is it and C.sx(op) in why:
                    return KEY_SRM_HEAD
            try:
                ref.step(op)
            except Unspecified:
                break
    return None
