"""C05 — pubsub.Queue under deterministic schedules (T-sched); see queueref.py for the oracle."""
from . import common as C
from . import schedlog as SL
from . import queueref as Q

PROP = "C05"
LEVEL = "proof"
MIX = {"roles": ["producer", "consumer", "mixed", "producer", "consumer"], "close": 0.35}
RULE = ("2-5 logical threads over one Queue (unlimited, or hard limit<=6 with soft quota and burst credit) with programs drawn "
        "from the role mix " + str(MIX["roles"]) + "; schedules are seeded choice lists among the enabled atomic segments "
        "{start, resume-after-wake, cancel, helper-fire}; every schedule is replayed action by action on the Lean model "
        "(observations and enabled sets must agree) and checked by the sequential reference queue. Non-trivial: some "
        "operation parked and something was woken; distinct = distinct case lines.")
TRUSTED = ["sync.Mutex / sync.Cond (FIFO wake-up) / context modelled", "the verif hooks in pubsub/queue.go mark the segment "
           "boundaries (MANIFEST.hooks)", "burst credit is a float64: the executable model uses Lean's IEEE Float",
           "T-gen of the control structure (FunGen/SegsQueue.lean, rewritten from $VERIF_REPO/pubsub/queue.go on every run; "
           "FunProps/C05Segs.lean proves the model's start/resume of Add/BlockingAdd/Remove/Wait/Len/Close equal to it): the shape "
           "recogniser tools/go2lean/segs.go and its tables (call mapping q.doAdd/q.popFront/q.tracker.len()/cap() -> the model's "
           "own functions, field closed, method -> Op constructor, result -> observation string)"]
ASSUMPTIONS = ["segments are atomic (they run under q.mu)"]


def gen(rng, tier, open_keys):
    n = 3000 if tier == "quick" else 40000
    return [Q.gen_case(rng, MIX) for _ in range(n)] + [Q.gen_stress(rng, tier) for _ in range(12 if tier == "quick" else 60)] \
        + [Q.gen_pre(rng) for _ in range(400 if tier == "quick" else 8000)]


def corpus():
    return ["(queue (cfg unlimited) (thread (add 1) (add 2) (close)) (thread (wait) (wait) (wait)) (thread (next 0) (next 0) (next 0)) (choices 1 1 0 0 1 1 0 0 0 0 0 0 0 0))",
            "(queue (cfg soft 2 1 1 1) (thread (badd 1) (badd 2) (badd 3) (len)) (thread (remove) (wait)) (choices 0 0 0 0 0 0 0 0))"]


def predicate(line, obs, allow_known=False):
    return Q.full_predicate(line, obs)


features = Q.features
nontrivial = Q.nontrivial


def shrink(line, fails):
    return line if not line.startswith("(queue ") else SL.shrink_choices(line, fails)


def classify(line, obs, why):
    return None


def conclusive(line):
    return line.startswith("(qstress")
