"""C09 — the broker makes progress while subscribers read, and shuts down cleanly (T-out).
Same harness and model as C08 (harness/c08.go, FunModel/Broker.lean); scenarios emphasise bursts,
Stop/cancel at idle / mid-dispatch / mid-publish / with backlog, and API calls whose own context ends."""
import sys
from . import common as C
from . import brokerref as B

PROP = "C09"
LEVEL = "proof"
RULE = ("7 distributor back-ends x {ParallelDispatch} x WorkerPoolSize 1..3 x BufferSize 0..2 x scripted scenarios sequenced "
        "by call returns and process quiescence: bursts of 2..20 publishes completing before any subscriber reads, "
        "concurrent publishers, Stop or context cancellation at idle / with a worker blocked in a send / with publishers "
        "blocked in Publish / with a buffered backlog, then Wait; Subscribe, Unsubscribe, Publish, Stats and Wait on a "
        "stopped broker (must return once their own context ends); Stats whose context ends while the reply is pending; "
        "Stop while a Wait is in progress. Every case ends with Stop + Wait + a goroutine-leak census taken at "
        "quiescence. Non-trivial: some subscriber received a message; distinct = distinct case lines.")
TRUSTED = ["the tie is behavioural (T-out): the model's outcome predicate and the property oracle are evaluated on what the "
           "real broker did in sequenced scenarios; the broker's internal interleavings are not driven step by step",
           "quiescence = a stop-the-world goroutine dump in which every goroutine other than the sequencer is parked "
           "(plus, for Deque back-ends, a probe taken under the deque's mutex by a waiter that found it empty); a call that "
           "is pending at quiescence is blocked, no timeout is involved",
           "liveness is proved as: no stuck state + a strictly decreasing measure (no fairness argument, no wall clock)",
           "drift guard: normalised hash of the modelled functions of pubsub/broker.go and buffer.go"]
ASSUMPTIONS = ["'promptly' = the call is enabled to return in the model / has returned at the next quiescence in the run",
               "C05/C06/C07: Queue.Remove/Wait and Deque.WaitFront/WaitPushBack/ForcePushBack behave as the abstract "
               "distributor of the model (FIFO; a waiter is woken by a push; a blocked push is woken by a pop)"]


def gen(rng, tier, open_keys):
    return B.gen(rng, tier, B.C09_KINDS, risky=False)


def corpus():
    return [
        # a LIFO broker whose deque holds one message: every further publish evicts (force-push at capacity 1)
        "(broker (backend lifo 1) (opts (parallel 0) (workers 1) (buffer 0)) (script (sub 0 gated) (pub 0 6) (quiesce) (open 0) (quiesce) (pub 1 1) (quiesce) (pub 2 1) (quiesce)))",
        "(broker (backend deque unl) (opts (parallel 0) (workers 1) (buffer 0)) (script (sub 0 gated) (pub 0 5) (quiesce) (open 0) (quiesce)))",
        "(broker (backend chan 0) (opts (parallel 0) (workers 1) (buffer 0)) (script (sub 0 open) (statsrace) (pub 0 1) (stats) (quiesce)))",
        "(broker (backend chan 0) (opts (parallel 0) (workers 1) (buffer 0)) (script (waitasync) (quiesce) (stop) (joinwait)))",
        "(broker (backend chan 0) (opts (parallel 1) (workers 2) (buffer 0)) (script (sub 0 gated) (sub 1 gated) (pubasync 0 4) (quiesce) (stop) (wait) (join 0) (sub 5 open) (stats) (pub 1 1)))",
        "(broker (backend queue lim 2 4 2) (opts (parallel 0) (workers 1) (buffer 2)) (script (sub 0 gated) (pub 0 9) (quiesce) (cancel) (wait)))",
    ]


def predicate(line, obs, allow_known=False):
    return B.c09_predicate(line, obs, allow_known)[0]


def classify(line, obs, why):
    """the known shape, else the kind of failure (numbers removed) so that one kind is reported once"""
    import re
    key = B.c09_predicate(line, obs)[1] if obs else None
    return key or re.sub(r"\d+", "N", (why or "no output")[:60])


features, nontrivial, shrink = B.features, B.nontrivial, B.shrink


def extra_coverage():
    return {"drift_guard": B.drift_status()}


def main(tier, seed, replay):
    return B.judged_main(sys.modules[__name__], tier, seed, replay)
