"""C04 — pipelines terminate: no stuck consumer, no leaked goroutine.
Shares the T-out runner, the case format and the oracles with C01 (checks/c01.py); this module adds
the consumer behaviours (stop after k and Close, cancel after k, Close then cancel, a consumer parked
in ReadOne released by Close / cancel, one abandoned Split output) and the termination oracle:
after the consumer is done the harness waits for quiescence and lists the goroutines that still
have a frame inside github.com/tychoish/fun (the model predicts none)."""
import sys
from . import common as C
from . import c01 as P

PROP = "C04"
LEVEL = "proof"
RULE = P.RULE
TRUSTED = P.TRUSTED
ASSUMPTIONS = ["user functions (processor, transform, generator, source iterator) return without blocking forever and respect "
               "their context when they block",
               "the consumer stops in one of the documented ways: exhausting the output, Close on the output, cancelling the "
               "context passed to the first advance (for Split: no output that was advanced is abandoned without Close — "
               "see the open finding)"]
ASPECTS = ("delivery", "termination")
KEY_D25 = P.KEY_D25
cfg_of, classify, nontrivial, features, shrink, mk = P.cfg_of, P.classify, P.nontrivial, P.features, P.shrink, P.mk

CUTS = [0, 1, 2, 3, 7, 8]


def predicate(line, obs, allow_known=False):
    return P.predicate(line, obs, allow_known, ASPECTS)


def behaviours(c, w, n):
    """consumer behaviours applicable to a construct"""
    out = [["exhaust"]]
    if c == "chanread":
        return out
    cuts = [k for k in CUTS if k <= n + 1]
    if c in ("pp", "pfe", "worker", "bchan"):
        return out + [["cancel", k] for k in cuts]
    for k in cuts:
        out += [["close", k], ["cancel", k], ["closecancel", k]]
    if c not in P.NO_BLOCKED:
        out += [["blockedclose"], ["blockedcancel"]]
    if c == "split" and w >= 2:
        out.append(["abandonother"])
    if c not in P.NO_CLOSE_DURING_FIRST:
        out.append(["closeduringfirst"])
    return out


def gen(rng, tier, open_keys):
    out = []
    reps = 1 if tier == "quick" else 12
    for (c, w, b) in P.shapes(tier):
        if c == "chanread":
            continue
        for n in P.lengths(tier):
            for beh in behaviours(c, w, n):
                for _ in range(reps):
                    for s in P.seeds_for(rng, 1):
                        out.append(mk(c, w, b, P.gen_input(rng, n), beh, s, rng.choice([1, 2, 4, 8])))
            if c in P.BADOPTS_OK:
                # a rejected option set (recovered panics cannot be excluded): exhaust must end at once, and the
                # stop behaviours must still unwind everything
                for beh in [["exhaust"], ["exhaust"]] + ([["close", 0], ["cancel", 0], ["closeduringfirst"]] if c not in ("pp", "pfe", "worker") else [["cancel", 0]]):
                    for _ in range(reps):
                        out.append(mk(c, w, b, P.gen_input(rng, n), beh, P.seeds_for(rng, 1)[0], rng.choice([1, 2, 4, 8]), badopts=True))
            if c == "split" and w >= 2 and KEY_D25 not in open_keys:
                out.append(mk(c, w, b, P.gen_input(rng, n), ["abandonfirst"], rng.randrange(1, 1 << 30), rng.choice([1, 2, 4])))
    rng.shuffle(out)
    return out


def corpus():
    return [mk("buffer", 1, 1, [1, 2, 3, 4], ["close", 2], 5, 2),
            mk("map", 3, 0, [1, 2, 3, 4, 5, 6, 7], ["cancel", 3], 6, 4),
            mk("merge", 3, 0, [1, 2, 3, 4, 5, 6, 7], ["closecancel", 1], 7, 4),
            mk("pbuf", 2, 0, [1, 2, 3], ["blockedclose"], 8, 2),
            mk("split", 3, 0, [1, 2, 3, 4, 5, 6, 7], ["abandonother"], 4, 2),
            mk("genpar", 4, 0, [1, 2, 3, 4, 5, 6, 7, 8, 9], ["blockedcancel"], 9, 8),
            mk("map", 3, 0, [1, 2, 3, 4, 5, 6, 7, 8], ["exhaust"], 10, 4, badopts=True),
            mk("itgen", 2, 0, [1, 2, 3], ["exhaust"], 11, 2, badopts=True),
            mk("pfe", 3, 0, [1, 2, 3, 4], ["exhaust"], 12, 2, badopts=True),
            mk("merge", 3, 0, list(range(1, 65)), ["closeduringfirst"], 13, 4),
            mk("genpar", 2, 0, list(range(1, 65)), ["closeduringfirst"], 14, 4),
            mk("dtmap", 1, 0, list(range(1, 17)), ["closeduringfirst"], 15, 2),
            # the boundary number of inputs: MergeIterators() of nothing is a finite (empty) input and must reach
            # io.EOF; Close and cancellation before the first advance must unwind it too (seeded change C04-v1)
            mk("merge0", 1, 0, [], ["exhaust"], 17, 2),
            mk("merge0", 1, 0, [], ["close", 0], 17, 2),
            mk("merge0", 1, 0, [], ["cancel", 0], 17, 2),
            mk("merge0", 1, 0, [], ["closecancel", 0], 17, 1)]


def known_witnesses():
    return {KEY_D25: [mk("split", 2, 0, [1, 2, 3], ["abandonfirst"], 0, 2),
                      mk("split", 3, 0, [1, 2, 3, 4, 5, 6, 7], ["abandonfirst"], 4, 2)]}


def main(tier, seed, replay=None):
    return P.run_tout(sys.modules[__name__], tier, seed, replay)
