"""C02 — sequential iterator pipelines equal their functional specification.
A case: (pipe consumer tree). The oracle below is the functional specification itself."""
from . import common as C

PROP = "C02"
LEVEL = "proof"
RULE = ("random operator trees (depth<=5) over sources {slice, variadic, channel, dt.List, dt.Stack, scripted generator} and "
        "operators {Filter, Transform, Join, Chain, Buffer, Split(1), BufferedChannel, Uniq, DropZeroValues, Indexed, "
        "MergeSlices, MergeSliceIterators, JSON round trip}; inputs: empty, singleton, duplicates, zeros, negatives; user "
        "functions are arithmetic maps with injected skip/error/EOF/abort at first/last/adjacent call positions; consumers: "
        "ReadOne until two EOFs + Close, Count, Slice, Reduce, MarshalJSON. Non-trivial: depth>=2 and a non-empty result or an "
        "injected event; distinct = distinct case lines.")
TRUSTED = ["goroutine-backed identity stages (Buffer, Split(1), Channel, Chain, MergeSlices) are modelled by their sequential "
           "value semantics (their concurrency is C01/C04)", "encoding/json on ints"]
ASSUMPTIONS = ["the context is never cancelled during a sequential pipeline run"]

KEY_JOIN = "Join/Chain:continues-after-operand-failure"


# ---------------- generator ------------------------------------------------------------------
def gen_vals(rng):
    k = rng.randrange(6)
    if k == 0:
        return []
    if k == 1:
        return [rng.randrange(-9, 10)]
    if k == 2:
        return [rng.choice([0, 0, 1, 2, 2, 3]) for _ in range(rng.randrange(2, 8))]
    return [rng.randrange(-9, 10) for _ in range(rng.randrange(2, 9))]


def gen_inj(rng, allow_fail, maxn=8):
    inj = []
    if rng.random() < 0.55:
        return inj
    used = set()
    for _ in range(rng.choice([1, 1, 2, 3])):
        idx = rng.choice([0, 0, 1, 2, rng.randrange(maxn), maxn - 1])
        if idx in used:
            continue
        used.add(idx)
        kinds = ["skip", "skip"]
        if allow_fail:
            kinds += [["err", rng.randrange(1, 5)], ["err", rng.randrange(1, 5)], "eof", "abort", "ctx"]
        inj.append([idx, rng.choice(kinds)])
    return inj


def gen_tree(rng, depth, allow_fail, open_keys):
    k = rng.random()
    if depth <= 0 or k < 0.18:
        s = rng.random()
        if s < 0.75:
            return [rng.choice(["slice", "vari", "chan", "list", "stack"])] + gen_vals(rng)
        evs = []
        for v in gen_vals(rng):
            evs.append(v)
            if rng.random() < 0.2:
                evs.append("skip")
        if allow_fail and rng.random() < 0.4:
            evs.insert(rng.randrange(len(evs) + 1), rng.choice([["err", rng.randrange(1, 5)], "eof", "abort", "ctx"]))
        return ["gen"] + evs
    sub = lambda af=allow_fail: gen_tree(rng, depth - 1, af, open_keys)
    if k < 0.30:
        m = rng.choice([1, 2, 3]); return ["filter", m, rng.randrange(m), sub()]
    if k < 0.50:
        return ["map", rng.choice([1, 2, 10, -1]), rng.choice([0, 1, 5]), ["inj"] + gen_inj(rng, allow_fail), sub()]
    if k < 0.64:
        n = rng.choice([2, 2, 3])
        inner_ok = allow_fail and KEY_JOIN not in open_keys
        return [rng.choice(["join", "join", "chain"])] + [sub(inner_ok) for _ in range(n - 1)] + [sub()]
    if k < 0.72:
        return rng.choice([["buffer", rng.randrange(0, 4), sub()], ["split1", sub()], ["channel", rng.randrange(0, 3), sub()]])
    if k < 0.78:
        return ["uniq", sub()]
    if k < 0.84:
        return ["dropzero", sub()]
    if k < 0.89:
        return ["indexed", sub()]
    if k < 0.94:
        return [rng.choice(["mergeslices", "msi"])] + [gen_vals(rng) for _ in range(rng.randrange(0, 4))]
    if k < 0.97:
        return ["jsonrt", sub()]
    return ["jsonlit"] + [rng.choice(["null", "null", 0, 1, 5, -3, 7]) for _ in range(rng.randrange(0, 7))]


def gen(rng, tier, open_keys):
    n = 3000 if tier == "quick" else 120000
    out = []
    for _ in range(n):
        tree = gen_tree(rng, rng.choice([1, 2, 3, 4, 5]), True, open_keys)
        c = rng.random()
        if c < 0.6:
            # read past the end of the stream: Close() reports the errors met *so far*, so a read that
            # stops before a later failure would see fewer errors than the whole-stream model lists
            try:
                n_vals = len(spec(tree)[0])
            except Exception:
                n_vals = 40
            cons = ["read", max(40, n_vals + 8)]
        elif c < 0.7:
            cons = ["count"]
        elif c < 0.8:
            cons = ["slicec"]
        elif c < 0.9:
            cons = ["reduce", rng.choice([1, 2]), rng.choice([0, 1]), ["inj"] + gen_inj(rng, True)]
        else:
            cons = ["json"]
        out.append(C.sx(["pipe", cons, tree]))
    return out


def corpus():
    return ["(pipe (read 6) (map 10 0 (inj (1 (err 7))) (slice 1 2 3)))",
            "(pipe (read 6) (join (slice 1 2) (filter 2 0 (slice 4 5 6))))",
            "(pipe (read 8) (uniq (chain (slice 1 1 2) (stack 2 3))))",
            "(pipe (json) (jsonrt (indexed (dropzero (slice 0 5 0 6)))))",
            "(pipe (read 6) (jsonlit 5 null 7 null))"]


def known_witnesses():
    return {KEY_JOIN: ["(pipe (read 6) (join (map 10 0 (inj (1 (err 7))) (slice 1 2 3)) (slice 7 8)))",
                       "(pipe (read 6) (chain (map 10 0 (inj (1 (err 7))) (slice 1 2 3)) (slice 7 8)))"]}


# ---------------- the functional specification ------------------------------------------------
def trunc_rem(x, m):
    r = abs(x) % abs(m)
    return r if x >= 0 else -r


def is_val(ev):
    return not isinstance(ev, list) and ev not in ("skip", "eof", "abort", "ctx")


def apply_fn(mul, add, inj, xs):
    """returns (outputs, failed)"""
    table = {int(p[0]): p[1] for p in inj}
    out = []
    for n, x in enumerate(xs):
        if n in table:
            ev = table[n]
            if ev == "skip":
                continue
            if is_val(ev):
                out.append(int(ev)); continue
            return out, True
        out.append(x * mul + add)
    return out, False


def spec(t):
    """(values, failed): the functional specification, truncated at the first non-skip user error"""
    h, a = t[0], t[1:]
    if h in ("slice", "vari", "chan", "list"):
        return [int(x) for x in a], False
    if h == "stack":
        return [int(x) for x in a][::-1], False
    if h == "gen":
        out = []
        for ev in a:
            if ev == "skip":
                continue
            if is_val(ev):
                out.append(int(ev))
            else:
                return out, True
        return out, False
    if h == "filter":
        xs, f = spec(a[2]); m, r = int(a[0]), int(a[1])
        return [x for x in xs if trunc_rem(x, m) == r], f
    if h == "map":
        xs, f = spec(a[3])
        out, f2 = apply_fn(int(a[0]), int(a[1]), a[2][1:], xs)
        return out, f or f2       # an upstream failure already truncated xs
    if h in ("join", "chain"):
        out = []
        for sub in a:
            xs, f = spec(sub)
            out += xs
            if f:
                return out, True
        return out, False
    if h in ("buffer", "channel"):
        return spec(a[1])
    if h in ("split1", "jsonrt"):
        return spec(a[0])
    if h == "jsonlit":
        return [0 if x == "null" else int(x) for x in a], False
    if h == "uniq":
        xs, f = spec(a[0]); seen, out = set(), []
        for x in xs:
            if x not in seen:
                seen.add(x); out.append(x)
        return out, f
    if h == "dropzero":
        xs, f = spec(a[0]); return [x for x in xs if x != 0], f
    if h == "indexed":
        xs, f = spec(a[0]); return [i * 1000 + x for i, x in enumerate(xs)], f
    if h in ("mergeslices", "msi"):
        return [int(x) for sl in a for x in sl], False
    raise ValueError(t)


def predicate(line, obs, allow_known=False):
    t = C.parse_sx(line)
    cons, tree = t[1], t[2]
    if obs.startswith("PANIC") or obs.startswith("bad"):
        return "implementation panicked / rejected the case: " + obs[:160]
    want, _ = spec(tree)
    if cons[0] == "read":
        toks = obs.split(" close=")[0].split(" ")
        got, stopped = [], False
        for tk in toks:
            if tk.startswith("v") and not stopped:
                got.append(int(tk[1:]))
            elif tk.startswith("v"):
                return f"the iterator yielded {tk} after ReadOne had already returned an error"
            else:
                stopped = True
        if not stopped:
            want = want[:len(got)]      # the reader stopped asking before the pipeline ended
        if got != want:
            return f"pipeline yielded {got} but the functional specification gives {want}"
        return None
    if cons[0] == "count":
        return None if int(obs) == len(want) else f"Count()={obs} but the specification has {len(want)} elements"
    if cons[0] == "slicec":
        got = [int(x) for x in obs.split(",") if x]
        return None if got == want else f"Slice()={got} but the specification gives {want}"
    if cons[0] == "json":
        w = "[" + ",".join(map(str, want)) + "]"
        return None if obs == w else f"MarshalJSON={obs} but the specification gives {w}"
    if cons[0] == "reduce":
        outs, _ = apply_fn(int(cons[1]), int(cons[2]), cons[3][1:], want)
        got = int(obs.split(" ")[0])
        return None if got == sum(outs) else f"Reduce={got} but folding the specification gives {sum(outs)}"
    return None


def has_failing_inner_operand(t):
    if not isinstance(t, list) or not t or not isinstance(t[0], str):
        return False
    if t[0] in ("join", "chain"):
        for sub in t[1:-1]:
            if spec(sub)[1]:
                return True
    if t[0] in ("mergeslices", "msi", "inj", "gen", "slice", "vari", "chan", "list", "stack"):
        return False
    return any(has_failing_inner_operand(x) for x in t[1:] if isinstance(x, list))


def classify(line, obs, why):
    t = C.parse_sx(line)
    return KEY_JOIN if has_failing_inner_operand(t[2]) else None


def nontrivial(line, obs):
    return line.count("(") >= 5 and ("(inj (" in line or (obs is not None and "v" in obs))


def features(line, obs):
    f = []
    for k in ("slice", "vari", "chan", "list", "stack", "gen", "filter", "map", "join", "chain", "buffer", "split1", "channel",
              "uniq", "dropzero", "indexed", "mergeslices", "msi", "jsonrt", "jsonlit", "read", "count", "slicec", "reduce", "json"):
        if "(" + k + " " in line or "(" + k + ")" in line:
            f.append("op:" + k)
    for k in ("skip", "(err", "eof", "abort", "ctx"):
        if k in line:
            f.append("inj:" + k.strip("("))
    d, depth = 0, 0
    for c in line:
        if c == "(":
            d += 1; depth = max(depth, d)
        elif c == ")":
            d -= 1
    f.append(f"depth:{min(depth, 9)}")
    return f


def shrink(line, fails):
    t = C.parse_sx(line)

    def subtrees(x, path):
        if isinstance(x, list) and x and x[0] in ("filter", "map", "join", "chain", "buffer", "split1", "channel", "uniq",
                                                  "dropzero", "indexed", "jsonrt"):
            for i, y in enumerate(x):
                if i > 0 and isinstance(y, list) and y and y[0] not in ("inj",) and isinstance(y[0], str) and not y[0].lstrip("-").isdigit():
                    yield path + [i]
                    yield from subtrees(y, path + [i])

    def get(x, p):
        for i in p:
            x = x[i]
        return x

    def put(x, p, v):
        if not p:
            return v
        x = list(x); x[p[0]] = put(x[p[0]], p[1:], v); return x

    changed, budget = True, 120
    while changed and budget > 0:
        changed = False
        for p in list(subtrees(t[2], [2])):
            cand = put(t, p[:-1], get(t, p))      # replace a node by one of its children
            budget -= 1
            if fails(C.sx(cand)):
                t, changed = cand, True
                break
            if budget <= 0:
                break
    return C.sx(t)
