"""Sequential reference semantics of pubsub.Queue (bounded FIFO with soft quota / burst credit) and
the oracles of C05 / C07 / C20 over a T-sched log. Every segment of the log runs under the queue's
mutex, so the order of the log is a linearization: the oracles replay it against the reference."""
from . import common as C
from . import schedlog as SL


class Tracker:
    def __init__(self, cfg):
        if cfg[1] == "unlimited":
            self.kind = "unlimited"; self.length = 0
        else:
            self.kind = "soft"
            hard, soft, bn, bd = int(cfg[2]), int(cfg[3]), int(cfg[4]), int(cfg[5])
            burst = float(bn) / float(bd)
            if soft <= 0:
                soft = hard
            if burst == 0:
                burst = float(soft)
            self.soft, self.hard, self.length, self.credit = soft, hard, 0, burst

    def has_room(self):
        return self.kind == "unlimited" or self.soft > self.length

    def add(self):
        if self.kind == "unlimited":
            self.length += 1; return "ok"
        if self.length >= self.soft:
            if self.length == self.hard:
                return "full"
            if self.credit < 1:
                return "nocredit"
            self.credit -= 1
            self.soft = self.length + 1
        self.length += 1
        return "ok"

    def remove(self):
        self.length -= 1
        if self.kind == "unlimited":
            return
        if self.length < self.soft:
            if self.soft > 1 and self.length < self.soft // 2:
                self.soft -= 1
            self.credit += float(self.soft - self.length) / float(self.soft)
            cap = float(self.hard - self.soft)
            if self.credit > cap:
                self.credit = cap

    def hard_limit(self):
        return None if self.kind == "unlimited" else self.hard


class RefQueue:
    def __init__(self, cfg):
        self.tr = Tracker(cfg)
        self.items = []          # (add index, value)
        self.closed = False
        self.history = []        # every successful add, in order
        self.removed = set()     # add indices that have been removed

    def do_add(self, v):
        if self.closed:
            return "closed"
        r = self.tr.add()
        if r == "ok":
            self.items.append((len(self.history), v)); self.history.append(v)
        return r

    def pop(self):
        i, v = self.items.pop(0)
        self.removed.add(i)
        self.tr.remove()
        return v


def cfg_of(line):
    t = C.parse_sx(line)
    return next(x for x in t[1:] if isinstance(x, list) and x and x[0] == "cfg")


def replay(line, obs, on_step):
    """drive the reference along the log; on_step(ctx) may return a violation string"""
    progs = SL.programs_of(line)
    steps, blocked, state, err = SL.parse(obs)
    if err and err.startswith("TIMEOUT"):
        return f"a goroutine that had to run did not: {err} (lost wake-up / hang)", None
    if err:
        return err, None
    q = RefQueue(cfg_of(line))
    pc = [0] * len(progs)
    cancelled = set()
    inflight = {}            # tid -> op currently blocked
    iters = {}               # k -> index into history of the last yielded item (-1 = none)
    for st in steps:
        if st.kind == "c":
            cancelled.add(st.tid)
            continue
        if st.kind == "f":
            continue
        if st.end.startswith("yield:"):
            continue
        op = progs[st.tid][pc[st.tid]]
        is_start = st.kind == "s"
        why = on_step(q, st, op, is_start, st.tid in cancelled, iters)
        if why:
            return why, None
        if st.ret is not None:
            pc[st.tid] += 1
            cancelled.discard(st.tid)
            inflight.pop(st.tid, None)
        else:
            inflight[st.tid] = op
    return None, (q, blocked, state, inflight, cancelled, iters)


def apply_op(q, st, op, cancelled, iters):
    """apply one segment of `op` that ended as `st` to the reference; returns a violation or None.
    This is the sequential specification (C05)."""
    k, r = op[0], st.ret
    if k == "add":
        want = q.do_add(int(op[1]))
        return None if r == want else f"Add({op[1]}) returned {r} but the sequential rules say {want}"
    if k == "badd":
        if r is None:
            if q.closed or q.tr.has_room() or cancelled:
                return (f"BlockingAdd({op[1]}) blocks although " +
                        ("the queue is closed" if q.closed else "there is free capacity" if q.tr.has_room() else "its context is cancelled"))
            return None
        if r == "ctx":
            return None if cancelled else "BlockingAdd returned a context error but its context was not cancelled"
        if r == "closed":
            return None if q.closed else "BlockingAdd returned ErrQueueClosed on an open queue"
        if not q.tr.has_room() and not q.closed:
            return f"BlockingAdd({op[1]}) returned {r} while the queue is at capacity"
        want = q.do_add(int(op[1]))
        return None if r == want else f"BlockingAdd({op[1]}) returned {r} but the sequential rules say {want}"
    if k == "remove":
        if not q.items:
            return None if r == "none" else f"Remove on an empty queue returned {r}"
        v = q.pop()
        return None if r == str(v) else f"Remove returned {r} but the oldest item is {v}"
    if k in ("wait", "recv"):
        if r is None:
            if q.items or q.closed or cancelled:
                return (f"Wait blocks although " + ("the queue is not empty" if q.items else "the queue is closed"
                                                    if q.closed else "its context is cancelled"))
            return None
        if q.items:
            v = q.pop()
            return None if r == str(v) else f"Wait returned {r} but the oldest item is {v}"
        if r == "closed":
            return None if q.closed else "Wait returned ErrQueueClosed on an open queue"
        if r == "ctx":
            return None if cancelled else "Wait returned a context error but its context was not cancelled"
        return f"Wait returned {r} on an empty queue"
    if k == "len":
        if int(r) != len(q.items):
            return f"Len()={r} but {len(q.items)} items are queued"
        hl = q.tr.hard_limit()
        if hl is not None and int(r) > hl:
            return f"Len()={r} exceeds the hard limit {hl}"
        return None
    if k == "close":
        q.closed = True
        return None
    if k == "next":
        kk = int(op[1])
        last = iters.get(kk, -1)
        # unseen items still linked: positions after `last` not removed
        pending = [i for (i, _) in q.items if i > last]
        if r is None:
            if pending:
                return f"iterator {kk} blocks although item {q.history[pending[0]]} was added after its position and is still queued"
            if q.closed:
                return f"iterator {kk} blocks although the queue is closed"
            if cancelled:
                return f"iterator {kk} blocks although its context is cancelled"
            return None
        if r == "eof":
            if not q.closed:
                return f"iterator {kk} returned io.EOF although the queue is not closed"
            if pending:
                return f"iterator {kk} returned io.EOF although item {q.history[pending[0]]} is still queued and unseen"
            return None
        if r == "ctx":
            return None if cancelled else f"iterator {kk} returned a context error without cancellation"
        if r.startswith("PANIC"):
            return f"iterator {kk} panicked"
        v = int(r)
        # must be an item added after `last`; every skipped item must have been removed meanwhile
        cand = [i for i in range(last + 1, len(q.history)) if q.history[i] == v]
        ok = None
        for i in cand:
            if all(j in q.removed for j in range(last + 1, i)):
                ok = i; break
        if ok is None:
            if not cand:
                return f"iterator {kk} yielded {v}, which was never added after its position"
            return f"iterator {kk} yielded {v} but skipped an item that is still queued"
        iters[kk] = ok
        return None
    return None


def final_checks(q, blocked, state, inflight, cancelled, iters, progs_line):
    """quiescence (C07): nothing may stay blocked whose condition holds"""
    for b in blocked:
        tid = int(b.split("@")[0])
        op = inflight.get(tid)
        if op is None:
            continue
        k = op[0]
        canc = tid in cancelled
        if k in ("wait", "recv") and (q.items or q.closed or canc):
            return f"at quiescence thread {tid} is still blocked in Wait although " + (
                "the queue is not empty" if q.items else "the queue is closed" if q.closed else "its context is cancelled")
        if k == "badd" and (q.tr.has_room() or q.closed or canc):
            return f"at quiescence thread {tid} is still blocked in BlockingAdd although " + (
                "there is free capacity" if q.tr.has_room() else "the queue is closed" if q.closed else "its context is cancelled")
        if k == "next":
            last = iters.get(int(op[1]), -1)
            pending = [i for (i, _) in q.items if i > last]
            if pending or q.closed or canc:
                return f"at quiescence thread {tid}'s iterator is still blocked although " + (
                    "an unseen item is queued" if pending else "the queue is closed" if q.closed else "its context is cancelled")
    want = f"len={len(q.items)} closed={int(q.closed)} items=[{','.join(str(v) for _, v in q.items)}]"
    if state != want:
        return f"final state `{state}` but the sequential history leaves `{want}`"
    return None


def stress_expect(line):
    t = C.parse_sx(line)
    kv = {x[0]: x[1] for x in t[1:] if isinstance(x, list) and len(x) == 2}
    n, cap, kind = int(kv.get("n", 1000)), int(kv.get("cap", 4)), kv.get("kind")
    if t[0] == "qstress":
        return {"drain": f"drain removed={n} falseempty=0 outoforder=0 lenbad=0 final=0", "fill": f"fill failed=0 lenbad=0 final={n}",
                "pc": "pc missing=0 dup=0 invented=0 orderbad=0 final=0",
                "badd": "badd failed=0 overlimit=0 missing=0 dup=0 orderbad=0 final=0"}[kind]
    return {"force": f"force lenbad=0 pushok=0 forcefailed=0 final={cap}",
            "drain": f"drain removed={n} falseempty=0 outoforder=0 lenbad=0 final=0"}[kind]


def stress_predicate(line, obs):
    want = stress_expect(line)
    if obs == want:
        return None
    return ("under real contention (free-running goroutines) the container left the sequential specification: observed `"
            + str(obs) + "`, every interleaving of a linearizable container gives `" + want + "`")


def gen_stress(rng, tier):
    big = tier != "quick"
    n = rng.choice([2000, 5000] if not big else [20000, 50000])
    k = rng.choice(["drain", "drain", "fill", "pc", "badd", "badd"])
    c = ["qstress", ["kind", k], ["n", n if k not in ("pc", "badd") else (n // 4 if k == "pc" else min(n // 4, 3000))], ["spin", rng.choice([2, 3, 4])]]
    if k == "pc":
        c += [["prod", rng.choice([1, 2, 3])], ["cons", rng.choice([1, 2, 3])]]
    if k == "badd":
        c += [["prod", rng.choice([2, 3, 4, 8])], ["cons", rng.choice([1, 1, 2])], ["cap", rng.choice([1, 1, 2, 3])]]
    return C.sx(c)


def pre_predicate(line, obs):
    """sequential calls, some with an already-cancelled context: replay on the reference queue"""
    t = C.parse_sx(line)
    ops = next(x for x in t[1:] if isinstance(x, list) and x and x[0] == "ops")[1:]
    if " | " not in obs:
        return "unparsable observation " + obs[:80]
    outs, state = obs.split(" | ", 1)
    outs = outs.split(";") if outs else []
    q = RefQueue(cfg_of(line))
    for i, op in enumerate(ops):
        if i >= len(outs):
            return f"no result for op {i} {C.sx(op)}"
        k = op[0]
        if k == "add":
            want = q.do_add(int(op[1]))
        elif k in ("badd", "baddc"):
            if q.closed:
                want = "closed"
            elif q.tr.has_room():
                want = q.do_add(int(op[1]))
            else:
                want = "ctx" if k == "baddc" else None
        elif k == "remove":
            want = str(q.pop()) if q.items else "none"
        elif k in ("waitc", "recvc"):
            want = str(q.pop()) if q.items else ("closed" if q.closed else "ctx")
        elif k == "len":
            want = str(len(q.items))
        elif k == "close":
            q.closed = True; want = "ok"
        else:
            return "bad op " + k
        if want is None:
            return None      # a blocking call with a live context that has to wait: the generator avoids it
        if outs[i] != want:
            return (f"op {i} {C.sx(op)} returned {outs[i]} but the sequential rules say {want}"
                    + (" (a call made with an already-cancelled context either completes or has no effect)" if k.endswith("c") else ""))
    want_state = f"len={len(q.items)} closed={int(q.closed)} items=[{','.join(str(v) for _, v in q.items)}]"
    if state != want_state:
        return f"final state `{state}` but the sequential history leaves `{want_state}`"
    return None


def gen_pre(rng):
    kind = rng.random()
    if kind < 0.4:
        cfg = ["cfg", "unlimited"]
    else:
        hard = rng.choice([1, 2, 3, 4, 6]); soft = rng.choice([0, -1, -3] + list(range(1, hard + 1)))
        cfg = ["cfg", "soft", hard, soft, rng.choice([0, 1, 1, 3]), rng.choice([1, 2])]
    ops = []
    for _ in range(rng.choice([3, 6, 12, 25])):
        k = rng.random()
        if k < 0.30:
            ops.append(["add", rng.randrange(1, 30)])
        elif k < 0.45:
            ops.append(["baddc", rng.randrange(1, 30)])
        elif k < 0.60:
            ops.append(["recvc"])
        elif k < 0.72:
            ops.append(["waitc"])
        elif k < 0.84:
            ops.append(["remove"])
        elif k < 0.94:
            ops.append(["len"])
        else:
            ops.append(["close"])
    return C.sx(["qpre", cfg, ["ops"] + ops])


def full_predicate(line, obs):
    if line.startswith("(qpre"):
        return pre_predicate(line, obs)
    if line.startswith("(qstress"):
        return stress_predicate(line, obs)
    if obs.startswith("probe"):
        if obs != "probe unlocked=0 returned=1":
            return ("a cancellation landing between the waiter's select and cond.Wait is lost: the helper's Broadcast ran "
                    "while the waiter still held the mutex and the waiter stayed blocked (" + obs + ")")
        return None
    if obs.startswith("PANIC") or obs.startswith("bad"):
        return "harness error: " + obs[:120]
    if "PANIC" in obs:
        return "an operation panicked: " + obs[obs.index("PANIC") - 30:obs.index("PANIC") + 60]

    def on_step(q, st, op, is_start, cancelled, iters):
        return apply_op(q, st, op, cancelled, iters)
    why, rest = replay(line, obs, on_step)
    if why:
        return why
    return final_checks(*rest, line)


# ---------------- generators ------------------------------------------------------------------
def gen_cfg(rng):
    if rng.random() < 0.35:
        return ["cfg", "unlimited"]
    hard = rng.choice([1, 2, 3, 4, 6])
    soft = rng.choice([0, 1, hard, max(1, hard // 2), -1, -2])   # a soft quota <= 0 is "valid, defaulted to the hard limit"
    soft = min(soft, hard)
    bn, bd = rng.choice([(0, 1), (1, 1), (2, 1), (1, 2), (3, 2), (5, 1)])
    return ["cfg", "soft", hard, soft, bn, bd]


def gen_case(rng, mix, nthreads=None, nchoices=None):
    cfg = gen_cfg(rng)
    nthreads = nthreads or rng.choice([2, 3, 3, 4, 5])
    progs = []
    val = [0]

    def v():
        val[0] += 1; return val[0]
    roles = mix["roles"]
    for i in range(nthreads):
        role = roles[i] if i < len(roles) else rng.choice(roles)
        ops = []
        for _ in range(rng.choice([1, 2, 3, 5])):
            if role == "producer":
                ops.append(rng.choice([["add", v()], ["add", v()], ["badd", v()]]))
            elif role == "bproducer":
                ops.append(["badd", v()])
            elif role == "consumer":
                ops.append(rng.choice([["wait"], ["wait"], ["remove"], ["recv"]]))
            elif role == "waiter":
                ops.append(["wait"])
            elif role == "iter":
                ops.append(["next", i % 2])
            elif role == "mixed":
                ops.append(rng.choice([["add", v()], ["remove"], ["len"], ["wait"], ["badd", v()], ["len"]]))
        if role in ("producer", "mixed") and rng.random() < mix.get("close", 0.3):
            ops.insert(rng.randrange(len(ops) + 1), ["close"])
        if rng.random() < 0.2:
            ops.append(["len"])
        progs.append(["thread"] + ops)
    choices = [rng.randrange(0, 12) for _ in range(nchoices or rng.choice([5, 15, 30, 60]))]
    return C.sx(["queue", cfg] + progs + [["choices"] + choices])


def features(line, obs):
    if line.startswith("(qpre"):
        return ["pre"] + ["pre:" + k for k in ("baddc", "recvc", "waitc", "close") if "(" + k in line] + (["pre:ctx"] if obs and "ctx" in obs else [])
    if line.startswith("(qstress") or line.startswith("(dstress"):
        return ["stress:" + line.split("(kind ")[1].split(")")[0]]
    if "probe" in line:
        return ["probe"]
    f = ["cfg:" + cfg_of(line)[1], f"threads:{line.count('(thread')}"]
    for k in ("add", "badd", "remove", "wait", "recv", "close", "next", "len"):
        if f"({k}" in line:
            f.append("op:" + k)
    if obs:
        for k in ("park:nempty", "park:nupdates", "ret:full", "ret:nocredit", "ret:closed", "ret:ctx", "ret:eof", "TIMEOUT", "yield:"):
            if k in obs:
                f.append("obs:" + k)
        f.append(f"cancels:{min(obs.count('}c'), 3)}")
        f.append(f"fires:{min(obs.count('}f'), 5)}")
        if "final blocked=[]" not in obs:
            f.append("final:blocked")
    return f


def nontrivial(line, obs):
    if line.startswith("(qpre"):
        return obs is not None and "ctx" in obs
    if line.startswith("(qstress"):
        return obs is not None
    return obs is not None and "park:" in obs and "wake=[" in obs
