"""C15 — function wrappers keep their execution-count, exclusion and waiting contracts.

Case families (one S-expression per line):
  (seq K (stack wspec...) (script step...) (ops callop...))   sequential call stream through a stack of up to 3
        wrappers of kind K in W(orker) O(peration) P(roducer) X(processor) H(andler) F(uture)       [T-diff]
  (adtonce (new [id]) (script step...) (ops adtop...))         adt.Once                              [T-diff]
  (conc subject K (n N) (callers G) (script step...) (choices c...))   the real wrapper under contention with a
        gate inside the wrapped function; observation = counts at each quiescent point               [T-out]
"""
import re
from . import common as C

PROP = "C15"
LEVEL = "proof"
RULE = ("sequential: kind x stacks of 0-3 wrappers (once, limit n, ttl0, ttl-forever, lock, retry n, join m, prehook, "
        "posthook, withcancel, if, when, recover) x scripts of <=8 outcomes (value / error atoms incl. EOF, abort, skip, "
        "context errors / panic / cancels-the-context) x call sequences (live or dead context, cancel, WithCancel's "
        "cancel), boundary-biased around n; adt.Once op sequences; concurrent: once/limit/oplimit/lock/launch/signal/"
        "background/startgroup with 1-64 callers, gate inside the wrapped function. Non-trivial: at least one wrapper and "
        "two calls (or two callers); distinct = distinct case lines.")
TRUSTED = ["sync.Once, sync.Mutex, sync/atomic, channels and `go` as described in DESIGN §3 (the small-step machines take them "
           "as primitives)",
           "quiescence of the real goroutines is read from runtime.Stack (every goroutine that runs library or harness code "
           "is blocked on a channel/mutex/cond)"]
ASSUMPTIONS = ["Jitter/Delay/After and TTL with a finite positive duration are not modelled (wall clock / select choice)",
               "a Launch-ed Worker's waiter is called by one goroutine at a time (WorkerFuture is not concurrency-safe)",
               "background starters are run with scripts that do not panic (a panic in a bare goroutine ends the process)"]

# a concurrent case with 64 callers takes tens of quiescence scans; on a heavily loaded box the default
# 4 s per-case watchdog of the quick tier could fire on a healthy case (it only exists to detect hangs)
HARNESS_ENV = {"VERIF_CASE_TIMEOUT_MS": "60000"}

KINDS = ["W", "O", "P", "X", "H", "F"]
WRAPPERS = {
    "W": ["once", "limit", "ttl0", "ttlinf", "lock", "retry", "join", "prehook", "posthook", "withcancel", "if", "when", "recover"],
    "O": ["once", "limit", "ttl0", "ttlinf", "lock", "join", "prehook", "posthook", "withcancel", "if", "when"],
    "P": ["once", "limit", "ttl0", "ttlinf", "lock", "retry", "join", "prehook", "posthook", "withcancel", "if", "when", "recover"],
    "X": ["once", "limit", "ttl0", "ttlinf", "lock", "retry", "join", "prehook", "posthook", "withcancel", "if", "when", "recover"],
    "H": ["once", "lock", "join", "prehook", "if", "when"],
    "F": ["once", "limit", "ttl0", "ttlinf", "lock", "join", "prehook", "posthook", "if", "when"],
}
CORE = ["once", "limit", "retry", "join", "prehook", "posthook"]
ATOMS = ["u0", "u1", "u2", "u3", "eof", "abort", "skip", "canceled", "deadline"]
TERMINATING = {"eof", "abort", "canceled", "deadline"}
EXPIRED = {"canceled", "deadline"}


def gen_step(rng, kind, calm=False):
    r = rng.random()
    c = ["c"] if rng.random() < (0.0 if calm else 0.06) else []
    if r < 0.40:
        return ["ret", rng.randrange(1, 10)] + c
    if r < 0.80:
        atoms = [rng.choice(ATOMS) if rng.random() < 0.55 else rng.choice(ATOMS[:4])]
        if rng.random() < 0.08:
            atoms.append(rng.choice(ATOMS))
        v = rng.randrange(1, 10) if (kind == "P" and rng.random() < 0.3) else 0
        return ["ret", v] + atoms + c
    if r < 0.92 and not calm:
        return ["panic", rng.choice(ATOMS[:4])] + c
    return ["ret", 0] + c


def gen_wspec(rng, kind):
    name = rng.choice(WRAPPERS[kind]) if rng.random() < 0.5 else rng.choice([w for w in CORE if w in WRAPPERS[kind]])
    if name == "limit":
        return ["limit", rng.choice([0, 1, 1, 2, 2, 3, 5])]
    if name == "retry":
        return ["retry", rng.choice([0, 1, 2, 3, 3, 4])]
    if name == "join":
        return ["join", rng.choice([1, 1, 2])]
    if name == "if":
        return ["if", rng.choice([1, 1, 0])]
    if name == "when":
        return ["when"] + [rng.choice([1, 1, 0]) for _ in range(rng.randrange(0, 5))]
    return [name]


def gen_seq(rng, tier):
    kind = rng.choice(KINDS)
    depth = rng.choice([0, 1, 1, 1, 2, 2, 3, 3])
    stack = [gen_wspec(rng, kind) for _ in range(depth)]
    maxlen = 8 if tier == "quick" else rng.choice([8, 8, 16, 30])
    script = [gen_step(rng, kind) for _ in range(rng.randrange(0, maxlen + 1))]
    if kind == "P" and any(w[0] == "join" for w in stack):
        # Producer.Join retries ErrIteratorSkip in an unbounded loop: a skip that a caching wrapper
        # (once/limit/ttl) repeats forever never returns. Outside the statement; not generated.
        script = [[("u0" if x == "skip" else x) for x in st] for st in script]
    ns = [w[1] for w in stack if w[0] in ("limit", "retry")]
    if ns and rng.random() < 0.7:
        n = rng.choice(ns)
        ncalls = max(1, n + rng.choice([-1, 0, 1, 3]))
    else:
        ncalls = rng.randrange(1, 9)
    ops = []
    has_wc = any(w[0] == "withcancel" for w in stack)
    for _ in range(ncalls):
        r = rng.random()
        if r < 0.05:
            ops.append(["cancel"])
        elif has_wc and r < 0.2:
            ops.append(["wcancel"])
        ops.append(["calld" if rng.random() < 0.1 else "call", rng.randrange(0, 4)])
    return C.sx(["seq", kind, ["stack"] + stack, ["script"] + script, ["ops"] + ops])


def gen_adt(rng, tier):
    new = ["new"] + ([rng.randrange(1, 4)] if rng.random() < 0.6 else [])
    script = [gen_step(rng, "F") for _ in range(rng.randrange(0, 5))]
    ops = []
    for _ in range(rng.randrange(1, 9)):
        k = rng.choice(["do", "resolve", "resolve", "set", "called", "defined"])
        ops.append([k, rng.randrange(1, 6)] if k in ("do", "set") else [k])
    return C.sx(["adtonce", new, ["script"] + script, ["ops"] + ops])


CONC = {
    "once": ["W", "O", "P", "X", "H", "F", "M", "D", "T", "A", "B"],
    "limit": ["W", "P", "X", "F"],
    "oplimit": ["O"],
    "oplimitf": ["O"],
    "lock": ["W", "O", "P", "X", "H", "F"],
    "oplaunch": ["O"], "opsignal": ["O"], "opstartgroup": ["O"], "opadd": ["O"],
    "wlaunch": ["W"], "wsignal": ["W"], "wbackground": ["W"], "pbackground": ["P"], "xbackground": ["X"],
    "wstartgroup": ["W"],
    "wstartgroupx": ["W"],
    "plaunch": ["P"],
}
BACKGROUND = {"plaunch", "oplaunch", "opsignal", "opstartgroup", "opadd", "wlaunch", "wsignal", "wbackground", "pbackground",
              "xbackground", "wstartgroup", "wstartgroupx"}
ONCE_KIND = {"M": "F", "D": "F", "A": "F", "T": "O", "B": "O"}


def gen_conc(rng, tier):
    subject = rng.choice(list(CONC))
    kind = rng.choice(CONC[subject])
    n = rng.choice([1, 1, 2, 3, 5])
    g = rng.choice([1, 2, 2, 3, 4, 4, 8, 16, 32, 64])
    if subject in ("opstartgroup", "wstartgroup", "wstartgroupx"):
        n = rng.choice([1, 2, 3, 5, 8])
        g = rng.choice([1, 2, 3, 8])
    if subject == "lock" and g > 16:
        g = 16
    calm = subject in BACKGROUND
    k = ONCE_KIND.get(kind, kind)
    script = [gen_step(rng, k, calm=True) if calm else [x for x in gen_step(rng, k) if x != "c"]
              for _ in range(rng.randrange(0, 9))]
    choices = [rng.randrange(0, 16) for _ in range(rng.choice([0, 5, 20, 60]))]
    return C.sx(["conc", subject, kind, ["n", n], ["callers", g], ["script"] + script, ["choices"] + choices])


def gen(rng, tier, open_keys):
    n = 6000 if tier == "quick" else 200000
    out = []
    for _ in range(n):
        out.append(gen_adt(rng, tier) if rng.random() < 0.06 else gen_seq(rng, tier))
    for _ in range(1200 if tier == "quick" else 20000):
        out.append(gen_conc(rng, tier))
    return out


def corpus():
    return [
        "(seq W (stack (once) (retry 3)) (script (ret 0 u1) (ret 0) (panic u2)) (ops (call 0) (call 0) (cancel) (calld 1)))",
        "(seq P (stack (retry 3) (limit 2)) (script (ret 0 u1) (ret 0 skip) (ret 5) (ret 0 eof) (ret 9)) (ops (call 0) (call 0) (call 0)))",
        "(seq W (stack (limit 0)) (script) (ops (call 0)))",
        "(adtonce (new 1) (script (ret 4) (ret 5)) (ops (called) (resolve) (do 2) (resolve) (called)))",
        "(conc oplaunch O (n 1) (callers 3) (script) (choices))",
        "(conc limit P (n 2) (callers 4) (script (ret 1) (ret 2) (ret 3)) (choices 3 1 2 0 0 1 5 2 2))",
        "(conc once P (n 1) (callers 8) (script (panic u2)) (choices 3 1 2))",
    ]


# ---------------------------------------------------------------------------------------------
# independent oracle for the sequential families: the probes at every layer boundary give, for each
# wrapper, the calls it received and the calls it made; each clause of the property is evaluated on
# that wrapper alone (no model of the composition is needed)
# ---------------------------------------------------------------------------------------------
class Node:
    __slots__ = ("kind", "id", "arg", "res", "kids", "t0", "t1")

    def __init__(self, kind, id_, t0, arg=None):
        self.kind, self.id, self.arg, self.res, self.kids, self.t0, self.t1 = kind, id_, arg, None, [], t0, None


def parse_res(s):
    """-> ('ret', v, [atoms]) or ('panic', None, [atoms])"""
    if s.startswith("!"):
        return ("panic", None, [a for a in s[1:].split("+") if a])
    v, e = s.split("/", 1)
    return ("ret", int(v), [a for a in e.split("+") if a])


def parse_trace(tr):
    """-> list of top-level nodes; raises ValueError on a malformed trace"""
    root = Node("root", -1, -1)
    stack = [root]
    for t, tok in enumerate(tr.split()):
        if tok.startswith("<"):
            n = Node("layer", int(tok[1:]), t); stack[-1].kids.append(n); stack.append(n)
        elif tok.startswith("("):
            i, a = tok[1:].split(":"); n = Node("fn", int(i), t, int(a)); stack[-1].kids.append(n); stack.append(n)
        else:
            m = re.match(r"^(\d+)([>)])(.*)$", tok)
            if not m:
                raise ValueError("bad token " + tok)
            n = stack.pop()
            want = "layer" if m.group(2) == ">" else "fn"
            if n.kind != want or n.id != int(m.group(1)):
                raise ValueError(f"unbalanced trace at {tok}")
            n.res, n.t1 = parse_res(m.group(3)), t
    if len(stack) != 1:
        raise ValueError("unterminated call in trace")
    return root.kids


def all_nodes(nodes):
    for n in nodes:
        yield n
        yield from all_nodes(n.kids)


def is_ok(res):
    return res[0] == "ret" and not res[2]


def check_layer(kind, i, spec, calls, cancelled_at):
    """calls: the nodes of layer i in call order. Returns a reason or None."""
    name = spec[0]
    inner = lambda c: [k for k in c.kids if k.kind == "layer" and k.id == i - 1]
    parts = lambda c: [k for k in c.kids if k.kind == "fn"]
    for c in calls:
        for k in c.kids:
            if not ((k.kind == "layer" and k.id == i - 1) or (k.kind == "fn" and k.id // 10 == i)):
                return f"layer {i} ({name}) called something that is not its inner function or its own hook/part"
    if name == "once":
        execs = [k for c in calls for k in inner(c)]
        if len(execs) != min(1, len(calls)):
            return f"Once: {len(calls)} calls executed the function {len(execs)} times"
        if calls and not inner(calls[0]):
            return "Once: the first call did not execute the function"
        if execs and execs[0].res[0] == "ret":
            for n, c in enumerate(calls):
                if c.res != execs[0].res:
                    return f"Once: call {n} observed {c.res} but the single execution returned {execs[0].res}"
        return None
    if name == "limit":
        n = int(spec[1])
        done, last = 0, None
        for j, c in enumerate(calls):
            ex = inner(c)
            if done < n:
                if len(ex) != 1:
                    return f"Limit({n}): call {j} with {done} completed executions ran the function {len(ex)} times"
                if ex[0].res[0] == "ret" or kind == "O":
                    done += 1; last = ex[0].res
                if kind != "O" and c.res != ex[0].res:
                    return f"Limit({n}): call {j} executed the function with {ex[0].res} but returned {c.res}"
            else:
                if ex:
                    return f"Limit({n}): call {j} executed the function although {done} executions had completed"
                if kind != "O" and c.res != last:
                    return f"Limit({n}): call {j} returned {c.res}, the last ({n}-th) execution returned {last}"
        npan = sum(1 for c in calls for k in inner(c) if k.res[0] == "panic") if kind != "O" else 0
        total = sum(len(inner(c)) for c in calls)
        if total - npan != min(n, len(calls) - npan):
            return f"Limit({n}): {len(calls)} calls ({npan} panicking executions) completed {total - npan} executions"
        return None
    if name == "lock":
        for c in calls:
            ex = inner(c)
            if len(ex) != 1 or ex[0].res != c.res:
                return "Lock: a call is not exactly one execution with the same result"
        return None
    if name == "retry":
        n = int(spec[1])
        for c in calls:
            at = inner(c)
            if len(at) > n:
                return f"Retry({n}) made {len(at)} attempts"
            for j, a in enumerate(at):
                final = (j == len(at) - 1)
                r = a.res
                term = r[0] == "ret" and any(x in TERMINATING for x in r[2])
                skip = r[0] == "ret" and "skip" in r[2]
                stops = r[0] == "panic" or is_ok(r) or (term and not skip)
                goes_on = r[0] == "ret" and r[2] and (not term or skip)
                if not final and not goes_on:
                    return f"Retry({n}): attempt {j} ended with {r} (success or terminating) but another attempt followed"
                if final and len(at) < n and not (stops or (term and skip)):
                    return f"Retry({n}): stopped after {len(at)} attempts although the last one ended with {r}"
            if any(is_ok(a.res) for a in at):
                if c.res[0] != "ret" or c.res[2]:
                    return f"Retry({n}): an attempt succeeded but the call reported {c.res}"
                if kind == "P":
                    okv = [a.res[1] for a in at if is_ok(a.res)][0]
                    if c.res[1] != okv:
                        return f"Retry({n}): the successful attempt produced {okv} but the call returned {c.res[1]}"
            if c.res[0] == "ret" and c.res[2]:
                seen = [x for a in at if a.res[0] == "ret" for x in a.res[2]]
                if any(x not in seen for x in c.res[2]):
                    return f"Retry({n}): reported {c.res[2]} which is not made of the attempts' failures {seen}"
            if c.res[0] == "panic" and not any(a.res[0] == "panic" for a in at):
                return f"Retry({n}): panicked without a panicking attempt"
        return None
    if name == "join":
        m = int(spec[1])
        if kind == "P":
            order = []
            for c in calls:
                for k in c.kids:
                    order.append(0 if k.kind == "layer" else k.id % 10)
            if order != sorted(order):
                return f"Producer.Join: a later producer ran before an earlier one again: {order}"
            return None
        want = [0] + list(range(1, m + 1))
        for c in calls:
            got = [0 if k.kind == "layer" else k.id % 10 for k in c.kids]
            if got != want[:len(got)] or not got:
                return f"Join: parts ran in order {got}, documented order is {want}"
            for j, k in enumerate(c.kids):
                final = (j == len(c.kids) - 1)
                r = k.res
                cont = r[0] == "ret" and (kind in ("H", "F") or (not cancelled_at(k.t1) and (kind == "O" or not r[2])))
                if not final and not cont:
                    return f"Join: part {got[j]} ended with {r}" + (" and the context was cancelled" if cancelled_at(k.t1) else "") + " but the next part ran"
                if final and len(got) < len(want) and cont:
                    return f"Join: stopped after part {got[j]} which ended with {r} although the context was live"
            lastr = c.kids[-1].res
            if kind in ("W", "X") and c.res != lastr and not (c.res == ("ret", 0, []) and cancelled_at(c.kids[-1].t1) and is_ok(lastr)):
                return f"Join: returned {c.res} but the last part that ran returned {lastr}"
            if kind == "F" and c.res[0] == "ret" and c.res[1] != sum(k.res[1] for k in c.kids):
                return f"Future.Join: merged value {c.res[1]} is not the sum of the parts"
        return None
    if name in ("prehook", "posthook"):
        for c in calls:
            seq = ["f" if k.kind == "layer" else "h" for k in c.kids]
            rs = {("f" if k.kind == "layer" else "h"): k.res for k in c.kids}
            if name == "prehook":
                stop_after_hook_panic = kind in ("O", "H", "F") and rs.get("h", ("ret",))[0] == "panic"
                want = ["h"] if stop_after_hook_panic else ["h", "f"]
            else:
                skip_hook = kind in ("W", "X", "P") and rs.get("f", ("ret",))[0] == "panic"
                want = ["f"] if skip_hook else ["f", "h"]
            if seq != want:
                return f"{name}: ran {seq}, documented order is {want}"
            if kind in ("W", "X", "P") and "h" in rs and rs["h"][0] == "panic" and rs.get("f", ("ret",))[0] == "ret":
                if c.res[0] != "ret" or "recovered" not in c.res[2]:
                    return f"{name}: the hook panicked but the call returned {c.res}"
            if "f" in rs and rs["f"][0] == "ret" and c.res[0] == "ret":
                if any(x not in c.res[2] for x in rs["f"][2]) or c.res[1] != rs["f"][1]:
                    return f"{name}: the function returned {rs['f']} but the call returned {c.res}"
        return None
    if name == "if" and spec[1] == "0":
        if any(c.kids for c in calls):
            return "If(false) executed the function"
    return None


def seq_predicate(t, obs):
    kind, stack, script, ops = t[1], t[2][1:], t[3][1:], t[4][1:]
    if obs.startswith("ctor!"):
        if any(w[0] == "limit" and int(w[1]) <= 0 for w in stack):
            return None
        return "constructing the wrapper stack panicked: " + obs[:80]
    try:
        head, inv, tr = obs.split("|")
        results = head.split(";") if head else []
        top = parse_trace(tr[3:])
    except ValueError as e:
        return f"malformed observation ({e})"
    ncalls = sum(1 for o in ops if o[0] in ("call", "calld"))
    L = len(stack)
    if len(results) != ncalls or len(top) != ncalls or any(n.kind != "layer" or n.id != L for n in top):
        return f"{ncalls} calls but {len(results)} results / {len(top)} top-level trace entries"
    nodes = list(all_nodes(top))
    fns = [n for n in nodes if n.kind == "fn"]
    if int(inv[4:]) != sum(1 for n in fns if n.id == 0):
        return "invocation counter and trace disagree"
    # when is the global context cancelled: by a (cancel) op between calls or by a function that says so
    cancel_times = []
    for j, n in enumerate(sorted(fns, key=lambda n: n.t0)):
        if j < len(script) and "c" in script[j][1:]:
            cancel_times.append(n.t0)
    ci = 0
    for o in ops:
        if o[0] in ("call", "calld"):
            ci += 1
        elif o[0] == "cancel":
            cancel_times.append(top[ci].t0 - 0.5 if ci < len(top) else 10 ** 9)
    dead_calls = [(top[j].t0, top[j].t1) for j, o in enumerate(o for o in ops if o[0] in ("call", "calld")) if o[0] == "calld"]
    has_wc = any(w[0] == "withcancel" for w in stack)

    def cancelled_at(t):
        if any(ct <= t for ct in cancel_times) or any(a <= t <= b for a, b in dead_calls):
            return True
        return False
    for n, r in zip(top, results):
        if parse_res(r) != n.res:
            return "a call's result differs from what the outermost probe saw"
    for i, spec in enumerate(stack, start=1):
        calls = [n for n in nodes if n.kind == "layer" and n.id == i]
        if has_wc and spec[0] == "join" and kind in ("W", "X", "O"):
            continue      # the context a part sees depends on WithCancel's derived context: judged by the model only
        why = check_layer(kind, i, spec, calls, cancelled_at)
        if why:
            return why
    return None


def adt_predicate(t, obs):
    new, script, ops = t[1][1:], t[2][1:], t[3][1:]
    try:
        head, inv, tr = obs.split("|")
        results = [parse_res(r) for r in head.split(";")]
        fns = parse_trace(tr[3:])
    except ValueError as e:
        return f"malformed observation ({e})"
    if len(fns) > 1:
        return f"adt.Once ran {len(fns)} constructor executions"
    resolved = [r for r, o in zip(results, ops) if o[0] == "resolve" and r[0] == "ret"]
    if fns and fns[0].res[0] == "ret":
        if any(r[1] != fns[0].res[1] for r in resolved):
            return f"adt.Once: Resolve returned {resolved} but the single execution produced {fns[0].res[1]}"
    return None


def proj(kind, step):
    """what a function of the kind returns for a script step -> canonical result string"""
    if step[0] == "panic":
        return "!" + "+".join(x for x in step[1:] if x != "c")
    v, atoms = int(step[1]), [x for x in step[2:] if x != "c"]
    if kind in ("W", "X"):
        v = 0
    if kind in ("O", "H"):
        v, atoms = 0, []
    if kind == "F":
        atoms = []
    return f"{v}/" + "+".join(atoms)


def conc_predicate(t, obs):
    subject, kind = t[1], t[2]
    n, g = int(t[3][1]), int(t[4][1])
    script = t[5][1:]
    if subject == "opadd":
        n = 1
    m = re.match(r"^ph=((?:\(\d+,\d+(?:,\d+)?\))*)\|res=([^|]*)\|inv=(\d+)\|maxc=(\d+)(\|stuck=\d+)?$", obs)
    if not m:
        return "malformed observation " + obs[:120]
    phases = [(int(a), int(b)) for a, b in re.findall(r"\((\d+),(\d+)(?:,\d+)?\)", m.group(1))]
    res = m.group(2).split(",") if m.group(2) else []
    inv, maxc = int(m.group(3)), int(m.group(4))
    if m.group(5):
        return f"{m.group(5)[1:]}: callers never returned although no execution is in progress"
    if len(res) != g:
        return f"{g} calls but {len(res)} results"
    k = ONCE_KIND.get(kind, kind)
    outcome = lambda j: proj(k, script[j]) if j < len(script) else proj(k, ["ret", "0"])
    if subject == "once":
        if inv != 1:
            return f"Once executed the function {inv} times for {g} concurrent callers"
        for ret, inside in phases:
            if inside > 0 and ret > 0:
                return f"{ret} callers of a Once-wrapped function returned while the execution was still in progress"
        first = outcome(0)
        if not first.startswith("!"):
            want = first if k in ("P", "F") else ("0/" + first.split("/", 1)[1] if k in ("W", "X") else "0/")
            bad = [r for r in res if r != want]
            if bad:
                return f"Once: callers observed {sorted(set(bad))} but the execution returned {want}"
        return None
    if subject == "limit":
        if maxc > 1:
            return f"limitExec ran {maxc} executions at once"
        outs = [outcome(j) for j in range(inv)]
        npan = sum(1 for o in outs if o.startswith("!"))
        if inv - npan != min(n, g - npan):
            return f"Limit({n}): {g} calls ({npan} panicking executions) completed {inv - npan} executions"
        for j, (ret, inside) in enumerate(phases):
            if inside > 0 and ret != j:
                return f"Limit({n}): {ret} callers had returned when only {j} executions had ended"
        completed = [o for o in outs if not o.startswith("!")]
        want = sorted(outs + ([completed[-1]] * (g - inv) if completed else ["0/"] * (g - inv)))
        if sorted(res) != want:
            return f"Limit({n}): callers observed {sorted(res)}, expected the executions' own results and then the last one: {want}"
        return None
    if subject in ("oplimit", "oplimitf"):
        if maxc > n or any(inside > n for _, inside in phases):
            return f"Operation.Limit({n}) had more than {n} executions in progress"
        if inv != min(n, g):
            return f"Operation.Limit({n}) ran the operation {inv} times for {g} calls"
        return None
    if subject == "lock":
        if maxc > 1:
            return f"Lock ran {maxc} executions at once"
        if inv != g:
            return f"Lock: {g} calls, {inv} executions"
        if sorted(res) != sorted(outcome(j) for j in range(g)):
            return "Lock: results are not the executions' results"
        return None
    if subject == "plaunch":
        # the j-th value can only be received after the j-th successful execution has ended: at the
        # quiescent point after j tokens at most j waiters have returned (all of them once the stream ended)
        for j, (ret, inside) in enumerate(phases):
            if inside > 1:
                return "Producer.Launch ran two executions at once"
            if inside > 0 and ret > j:
                return f"Producer.Launch: {ret} waiters had returned when only {j} executions had ended"
        return None
    # background starters: no waiter may return while an execution is still in progress
    total = n if subject in ("opstartgroup", "wstartgroup", "wstartgroupx", "opadd") else 1
    if inv != total:
        return f"{subject}: {inv} background executions, expected {total}"
    for ret, inside in phases:
        if inside > 0 and ret > 0:
            return (f"{subject}: {ret} waiter(s) had returned while {inside} background execution(s) were still in progress")
    if subject in ("wlaunch", "wsignal", "wbackground", "pbackground", "xbackground"):
        e = outcome(0)
        want = sorted(["0/" + e.split("/", 1)[1]] + ["0/"] * (g - 1))
        if sorted(res) != want:
            return f"{subject}: waiters observed {sorted(res)}, expected {want}"
    if subject in ("wstartgroup", "wstartgroupx"):
        atoms = sorted(a for j in range(n) for a in outcome(j).split("/", 1)[1].split("+") if a)
        if any(r != "0/" + "+".join(atoms) for r in res):
            return f"Worker.StartGroup: waiters observed {sorted(set(res))}, the workers failed with {atoms}"
    return None


def predicate(line, obs, allow_known=False):
    if obs is None:
        return "no observation"
    if obs.startswith("bad") or obs.startswith("PANIC"):
        return "harness error: " + obs[:200]
    t = C.parse_sx(line)
    if t[0] == "seq":
        return seq_predicate(t, obs)
    if t[0] == "adtonce":
        return adt_predicate(t, obs)
    if t[0] == "conc":
        if obs.startswith("NOQUIESCE"):
            return "the harness could not reach a quiescent point: " + obs[:100]
        return conc_predicate(t, obs)
    return "unknown case family"


def second_pass(line, obs):
    """T-out: hand the implementation's observation of a concurrent case to the Lean driver, which
    evaluates the model's `allowed` predicate on it"""
    if not line.startswith("(conc ") or not obs or not obs.startswith("ph="):
        return None
    m = re.match(r"^ph=((?:\(\d+,\d+(?:,\d+)?\))*)\|res=([^|]*)\|inv=(\d+)\|maxc=(\d+)", obs)
    if not m:
        return None
    ph = " ".join(f"({a} {b})" for a, b in re.findall(r"\((\d+),(\d+)(?:,\d+)?\)", m.group(1)))
    res = " ".join(m.group(2).split(",")) if m.group(2) else ""
    return f"(allowed {line} (obs (ph {ph}) (res {res}) (inv {m.group(3)}) (maxc {m.group(4)})))"


def classify(line, obs, why):
    t = C.parse_sx(line)
    if t[0] == "conc":
        return "conc:" + t[1]
    if t[0] == "seq":
        return "seq:" + (why or "").split(":")[0][:40]
    return t[0]


def nontrivial(line, obs):
    t = C.parse_sx(line)
    if t[0] == "seq":
        return len(t[2]) > 1 and sum(1 for o in t[4][1:] if o[0] in ("call", "calld")) >= 2
    if t[0] == "conc":
        return int(t[4][1]) >= 2
    return len(t) > 3


def features(line, obs):
    t = C.parse_sx(line)
    f = ["family:" + t[0]]
    if t[0] == "seq":
        f.append("kind:" + t[1])
        f.append(f"depth:{len(t[2]) - 1}")
        for w in t[2][1:]:
            f.append("w:" + w[0])
        if obs and "!" in obs:
            f.append("obs:panic")
        if obs and obs.startswith("ctor"):
            f.append("obs:ctor-panic")
    if t[0] == "conc":
        f.append("conc:" + t[1] + ":" + t[2])
        f.append("callers:" + t[4][1])
    return f


def shrink(line, fails):
    t = C.parse_sx(line)
    if t[0] == "conc":
        best = t
        for g in (1, 2, 3, 4):
            cand = t[:4] + [["callers", g]] + t[5:]
            if g < int(t[4][1]) and fails(C.sx(cand)):
                best = cand
                break
        cand = best[:5] + [["script"]] + [["choices"]]
        return C.sx(cand) if fails(C.sx(cand)) else C.sx(best)
    if t[0] != "seq":
        return line
    kind, stack, script, ops = t[1], t[2][1:], t[3][1:], t[4][1:]
    mk = lambda st, sc, op: C.sx(["seq", kind, ["stack"] + st, ["script"] + sc, ["ops"] + op])
    for i in range(len(stack)):
        cand = stack[:i] + stack[i + 1:]
        if fails(mk(cand, script, ops)):
            return shrink(mk(cand, script, ops), fails)
    if len(ops) >= 2:
        ops = C.ddmin(ops, lambda sub: fails(mk(stack, script, sub)), max_tests=60)
    while script and fails(mk(stack, script[:-1], ops)):
        script = script[:-1]
    return mk(stack, script, ops)
