"""C15 — function wrappers keep their execution-count, exclusion and waiting contracts.

Case families (one S-expression per line):
  (seq K (stack wspec...) (script step...) (ops callop...))   sequential call stream through a stack of up to 3
        wrappers of kind K in W(orker) O(peration) P(roducer) X(processor) H(andler) F(uture)       [T-diff]
  (adtonce (new [id]) (script step...) (ops adtop...))         adt.Once                              [T-diff]
  (conc subject K (n N) (callers G) (script step...) (choices c...))   the real wrapper under contention with a
        gate inside the wrapped function; observation = counts at each quiescent point               [T-out]
"""
import re
from . import common as C

PROP = "C15"
LEVEL = "proof"
RULE = ("sequential: kind x stacks of 0-3 wrappers (once, limit n, ttl0, ttl-forever, lock, retry n, join m, prehook, "
        "posthook, withcancel, if, when, recover) x scripts of <=8 outcomes (value / error atoms incl. EOF, abort, skip, "
        "context errors / panic / cancels-the-context) x call sequences (live or dead context, cancel, WithCancel's "
        "cancel), boundary-biased around n; adt.Once op sequences; concurrent: once/limit/oplimit/lock/launch/signal/"
        "background/startgroup with 1-64 callers, gate inside the wrapped function. Non-trivial: at least one wrapper and "
        "two calls (or two callers); distinct = distinct case lines.")
TRUSTED = ["sync.Once, sync.Mutex, sync/atomic, channels and `go` as described in DESIGN §3 (the small-step machines take them "
           "as primitives)",
           "quiescence of the real goroutines is read from runtime.Stack (every goroutine that runs library or harness code "
           "is blocked on a channel/mutex/cond)"]
ASSUMPTIONS = ["Jitter/Delay/After and TTL with a finite positive duration are not modelled (wall clock / select choice)",
               "a Launch-ed Worker's waiter is called by one goroutine at a time (WorkerFuture is not concurrency-safe)",
               "background starters are run with scripts that do not panic (a panic in a bare goroutine ends the process)"]

KINDS = ["W", "O", "P", "X", "H", "F"]
WRAPPERS = {
    "W": ["once", "limit", "ttl0", "ttlinf", "lock", "retry", "join", "prehook", "posthook", "withcancel", "if", "when", "recover"],
    "O": ["once", "limit", "ttl0", "ttlinf", "lock", "join", "prehook", "posthook", "withcancel", "if", "when"],
    "P": ["once", "limit", "ttl0", "ttlinf", "lock", "retry", "join", "prehook", "posthook", "withcancel", "if", "when", "recover"],
    "X": ["once", "limit", "ttl0", "ttlinf", "lock", "retry", "join", "prehook", "posthook", "withcancel", "if", "when", "recover"],
    "H": ["once", "lock", "join", "prehook", "if", "when"],
    "F": ["once", "limit", "ttl0", "ttlinf", "lock", "join", "prehook", "posthook", "if", "when"],
}
CORE = ["once", "limit", "retry", "join", "prehook", "posthook"]
ATOMS = ["u0", "u1", "u2", "u3", "eof", "abort", "skip", "canceled", "deadline"]
TERMINATING = {"eof", "abort", "canceled", "deadline"}
EXPIRED = {"canceled", "deadline"}


def gen_step(rng, kind, calm=False):
    r = rng.random()
    c = ["c"] if rng.random() < (0.0 if calm else 0.06) else []
    if r < 0.40:
        return ["ret", rng.randrange(1, 10)] + c
    if r < 0.80:
        atoms = [rng.choice(ATOMS) if rng.random() < 0.55 else rng.choice(ATOMS[:4])]
        if rng.random() < 0.08:
            atoms.append(rng.choice(ATOMS))
        v = rng.randrange(1, 10) if (kind == "P" and rng.random() < 0.3) else 0
        return ["ret", v] + atoms + c
    if r < 0.92 and not calm:
        return ["panic", rng.choice(ATOMS[:4])] + c
    return ["ret", 0] + c


def gen_wspec(rng, kind):
    name = rng.choice(WRAPPERS[kind]) if rng.random() < 0.5 else rng.choice([w for w in CORE if w in WRAPPERS[kind]])
    if name == "limit":
        return ["limit", rng.choice([0, 1, 1, 2, 2, 3, 5])]
    if name == "retry":
        return ["retry", rng.choice([0, 1, 2, 3, 3, 4])]
    if name == "join":
        return ["join", rng.choice([1, 1, 2])]
    if name == "if":
        return ["if", rng.choice([1, 1, 0])]
    if name == "when":
        return ["when"] + [rng.choice([1, 1, 0]) for _ in range(rng.randrange(0, 5))]
    return [name]


def gen_seq(rng, tier):
    kind = rng.choice(KINDS)
    depth = rng.choice([0, 1, 1, 1, 2, 2, 3, 3])
    stack = [gen_wspec(rng, kind) for _ in range(depth)]
    maxlen = 8 if tier == "quick" else rng.choice([8, 8, 16, 30])
    script = [gen_step(rng, kind) for _ in range(rng.randrange(0, maxlen + 1))]
    if kind == "P" and any(w[0] == "join" for w in stack):
        # Producer.Join retries ErrIteratorSkip in an unbounded loop: a skip that a caching wrapper
        # (once/limit/ttl) repeats forever never returns. Outside the statement; not generated.
        script = [[("u0" if x == "skip" else x) for x in st] for st in script]
    ns = [w[1] for w in stack if w[0] in ("limit", "retry")]
    if ns and rng.random() < 0.7:
        n = rng.choice(ns)
        ncalls = max(1, n + rng.choice([-1, 0, 1, 3]))
    else:
        ncalls = rng.randrange(1, 9)
    ops = []
    has_wc = any(w[0] == "withcancel" for w in stack)
    for _ in range(ncalls):
        r = rng.random()
        if r < 0.05:
            ops.append(["cancel"])
        elif has_wc and r < 0.2:
            ops.append(["wcancel"])
        ops.append(["calld" if rng.random() < 0.1 else "call", rng.randrange(0, 4)])
    return C.sx(["seq", kind, ["stack"] + stack, ["script"] + script, ["ops"] + ops])


def gen_adt(rng, tier):
    new = ["new"] + ([rng.randrange(1, 4)] if rng.random() < 0.6 else [])
    script = [gen_step(rng, "F") for _ in range(rng.randrange(0, 5))]
    ops = []
    for _ in range(rng.randrange(1, 9)):
        k = rng.choice(["do", "resolve", "resolve", "set", "called", "defined"])
        ops.append([k, rng.randrange(1, 6)] if k in ("do", "set") else [k])
    return C.sx(["adtonce", new, ["script"] + script, ["ops"] + ops])


def gen(rng, tier, open_keys):
    n = 3000 if tier == "quick" else 150000
    out = []
    for _ in range(n):
        out.append(gen_adt(rng, tier) if rng.random() < 0.06 else gen_seq(rng, tier))
    return out


def corpus():
    return [
        "(seq W (stack (once) (retry 3)) (script (ret 0 u1) (ret 0) (panic u2)) (ops (call 0) (call 0) (cancel) (calld 1)))",
        "(seq P (stack (retry 3) (limit 2)) (script (ret 0 u1) (ret 0 skip) (ret 5) (ret 0 eof) (ret 9)) (ops (call 0) (call 0) (call 0)))",
        "(seq W (stack (limit 0)) (script) (ops (call 0)))",
        "(adtonce (new 1) (script (ret 4) (ret 5)) (ops (called) (resolve) (do 2) (resolve) (called)))",
    ]


def predicate(line, obs, allow_known=False):
    if obs is None:
        return "no observation"
    if obs.startswith("bad") or obs.startswith("PANIC"):
        return "harness error: " + obs[:200]
    return None


def nontrivial(line, obs):
    t = C.parse_sx(line)
    if t[0] == "seq":
        return len(t[2]) > 1 and sum(1 for o in t[4][1:] if o[0] in ("call", "calld")) >= 2
    return len(t) > 3


def features(line, obs):
    t = C.parse_sx(line)
    f = ["family:" + t[0]]
    if t[0] == "seq":
        f.append("kind:" + t[1])
        f.append(f"depth:{len(t[2]) - 1}")
        for w in t[2][1:]:
            f.append("w:" + w[0])
        if obs and "!" in obs:
            f.append("obs:panic")
        if obs and obs.startswith("ctor"):
            f.append("obs:ctor-panic")
    return f


def shrink(line, fails):
    t = C.parse_sx(line)
    if t[0] != "seq":
        return line
    kind, stack, script, ops = t[1], t[2][1:], t[3][1:], t[4][1:]
    mk = lambda st, sc, op: C.sx(["seq", kind, ["stack"] + st, ["script"] + sc, ["ops"] + op])
    for i in range(len(stack)):
        cand = stack[:i] + stack[i + 1:]
        if fails(mk(cand, script, ops)):
            return shrink(mk(cand, script, ops), fails)
    if len(ops) >= 2:
        ops = C.ddmin(ops, lambda sub: fails(mk(stack, script, sub)), max_tests=60)
    while script and fails(mk(stack, script[:-1], ops)):
        script = script[:-1]
    return mk(stack, script, ops)
