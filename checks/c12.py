"""C12 — error aggregation (ers, erc). Cases are error-construction terms; see harness/c12.go and
lean/FunModel/Drv/C12.lean for the two interpreters.

Besides the differential run the model is tied to the source by T-gen: every run, tools/go2lean (errshapes.go)
rewrites lean/FunGen/ErrShapes.lean from ers/merged.go, ers/ers.go, ers/panic.go, internal/wrap.go (the type switches
of Stack.Push / internal.Unwind / ParsePanic / Ok as ordered tables, Stack.Resolve/Len/Ok/Unwrap/Is/As and the default
clause of Push statement by statement, the Add/Join/Wrap glue) and FunProps/C12Gen.lean (built and audited with
FunProps/C12.lean because its name starts with C12) proves the hand-written model equal to it. Source outside the
translator's subset makes FunGen/ErrShapes.lean a non-compiling file: C12 then reports a broken tie
(`no-failing-input-found` unless the differential run finds an input), no other property is affected."""
import re
from . import common as C

PROP = "C12"
LEVEL = "proof"
RULE = ("random error trees (depth<=6 quick / 8 thorough, fan-out<=4, ~25% nil entries) over leaf kinds "
        "{ers.Error constant, pointer error, errors.New, three typed errors}, wrappers {fmt.Errorf %w, errors.Join, "
        "multi-%w, custom Unwrap()[]error with nils, custom Unwind()[]error, *ers.Stack, ers.Join, ers.Wrap, "
        "ers.ParsePanic}; plus collector cases (4 goroutines adding a partition of the terms). A case is "
        "non-trivial when its result is non-nil and at least one container node was flattened; distinct = distinct case lines.")
TRUSTED = ["errors.Is/errors.As of the Go standard library are modelled (Err.is / Err.as), not verified",
           "fmt.Errorf(%w), errors.Join produce wrap / multi nodes",
           "T-gen (FunProps/C12Gen.lean): tools/go2lean/errshapes.go (go/parser; recognition of the clause bodies, the "
           "normalised-syntax-tree comparison of sparse/buffer/grow/Stack.Unwind) and the vocabulary it targets, "
           "lean/FunModel/ErrShapes.lean: Go's first-match rule for type switches (Switch.select), the table node kind -> "
           "dynamic type (Dyn.ofErr), the meaning of each arm on the model's trees (runPush, runUnwind, runRet, runOk) and "
           "the immutable cell-chain reading of the *Stack nodes (ofItems)"]
ASSUMPTIONS = ["targets of errors.Is are leaf/typed/wrap/multi nodes, never a *Stack",
               "Collector.Add holds the mutex for the whole Push (checked separately by C13)"]


# ---------------- generator ------------------------------------------------------------------
class G:
    def __init__(self, rng, maxdepth):
        self.rng, self.maxdepth, self.next_id = rng, maxdepth, 1
        self.ids, self.leaves = [], []

    def fresh(self):
        i = self.next_id; self.next_id += 1; self.ids.append(i); return i

    def annot(self):
        # the errors.New made inside ers.Wrap cannot be named as a target: not listed in ids
        # (ids divisible by 3 are reserved for ers.Error constants, which errors.As(*ers.Error) finds;
        # the annotation is an errors.New value)
        while self.next_id % 3 == 0:
            self.next_id += 1
        i = self.next_id; self.next_id += 1; return i

    def leaf(self):
        r = self.rng
        if self.leaves and r.random() < 0.2:
            return r.choice(self.leaves)          # the same error value supplied twice
        if r.random() < 0.3:
            t = ["T", r.randrange(3), self.fresh()]
        else:
            t = ["L", self.fresh()]
        self.leaves.append(t)
        return t

    def nonnil(self, d):
        """a term that is never nil"""
        r = self.rng
        k = r.random()
        if d >= self.maxdepth or k < 0.3:
            return self.leaf()
        if k < 0.45:
            return ["W", self.fresh(), self.nonnil(d + 1)]
        if k < 0.62:
            return ["M", self.fresh()] + self.kids(d + 1)
        if k < 0.72:
            return ["U", self.fresh()] + self.kids(d + 1)
        if k < 0.9:
            return ["S"] + self.kids(d + 1)
        return ["P", self.nonnil(d + 1)]

    def term(self, d):
        r = self.rng
        k = r.random()
        if k < 0.25:
            return "N"
        if k < 0.40 and d < self.maxdepth:
            ks = self.kids(d + 1)
            if r.random() < 0.15:
                ks.insert(r.randrange(len(ks) + 1), "NS")     # a nil *ers.Stack operand (ignored like nil)
            return ["J"] + ks
        if k < 0.46 and d < self.maxdepth:
            return ["X", self.annot(), self.term(d + 1)]
        if k < 0.50 and d < self.maxdepth:
            return ["P", self.term(d + 1)]
        if k < 0.56 and d < self.maxdepth:
            return ["V", self.nonnil(d + 1)]      # the operand is observed (Unwind/Is/As) before it is used
        return self.nonnil(d)

    def addend(self, rng):
        """what is handed to Collector.Add: any term, now and then an inner node of a stack (what errors.Unwrap of
        a *Stack returns) directly"""
        if rng.random() < 0.12:
            return ["UWS", ["S"] + [self.term(2) for _ in range(rng.choice([2, 3, 4]))]]
        return self.term(1)

    def kids(self, d):
        n = self.rng.choice([0, 1, 1, 2, 2, 3, 4])
        out = [self.term(d) for _ in range(n)]
        if out and d < self.maxdepth and self.rng.random() < 0.06:
            # an inner node of a stack (errors.Unwrap of a *Stack), only ever as an operand
            out[self.rng.randrange(len(out))] = ["UWS", ["S"] + [self.term(d + 1) for _ in range(self.rng.choice([1, 2, 3, 4]))]]
        return out


def gen(rng, tier, open_keys):
    n = 2000 if tier == "quick" else 60000
    out = []
    for i in range(n):
        g = G(rng, rng.choice([1, 2, 3, 4, 6]) if tier == "quick" else rng.choice([2, 4, 6, 8]))
        if i % 8 == 7:
            terms = [g.addend(rng) for _ in range(rng.randrange(0, 9))]
            out.append(C.sx(["collector", g.ids + [999, 1000]] + terms))
        elif i % 8 == 3:
            steps = []
            for _ in range(rng.randrange(2, 10)):
                steps.append(["add", ("NS" if rng.random() < 0.08 else g.addend(rng))] if rng.random() < 0.55 else [rng.choice(["resolve", "iter", "iter", "len"])])
            steps.append([rng.choice(["resolve", "iter"])])
            out.append(C.sx(["colseq", g.ids] + steps))
        else:
            top = ["J"] + g.kids(0) if rng.random() < 0.8 else g.term(0)
            if top[0] == "J" and rng.random() < 0.1:
                top.insert(rng.randrange(1, len(top) + 1), "NS")
            out.append(C.sx(["case", g.ids + [999, 1000, 1001], top]))
    return out


def corpus():
    return ["(case (1 999) (J (L 1)))", "(case (999) (J N N))", "(case (1 2 999) (J (S (L 1)) (S) (M 2)))",
            "(case (1 2 3 999 1000) (P (J (L 1) (W 3 (L 2)))))", "(collector (1 999) N (L 1) N)"]


# ---------------- independent oracle (the property statement, in Python) ----------------------
def ev(t):
    """term -> value or None; values: (kind, id, payload)"""
    if t == "N" or t == "NS":
        return None
    h = t[0]
    if h == "L":
        return ("L", int(t[1]), None)
    if h == "T":
        return ("T", int(t[2]), int(t[1]))
    if h == "W":
        inner = ev(t[2])
        return None if inner is None else ("W", int(t[1]), inner)
    if h in ("M", "U"):
        return (h, int(t[1]), [ev(x) for x in t[2:]])
    if h == "S":
        return ("S", None, list(reversed(parts_all([ev(x) for x in t[1:]]))))
    if h == "J":
        return resolve(list(reversed(parts_all([ev(x) for x in t[1:]]))))
    if h == "X":
        inner = ev(t[2])
        if inner is None or (inner[0] == "S" and not inner[2]):   # ers.Ok: nil or an empty *Stack
            return None
        return resolve(list(reversed(parts_all([inner, ("L", int(t[1]), None)]))))
    if h == "UWS":
        v = ev(t[1])
        if v is not None and v[0] == "S":
            return ("S", None, v[2][1:]) if len(v[2]) >= 2 else None
        return v
    if h == "V":
        return ev(t[1])
    if h == "P":
        inner = ev(t[1])
        return None if inner is None else resolve(list(reversed(parts_all([inner, ("L", 1000, None)]))))
    raise ValueError(t)


def resolve(items):
    if not items:
        return None
    if len(items) == 1:
        return items[0]
    return ("S", None, items)


def parts(v):
    if v is None:
        return []
    if v[0] in ("M", "U", "S"):
        return parts_all(v[2])
    return [v]


def parts_all(vs):
    return [p for v in vs for p in parts(v)]


def contains(v, t):
    """errors.Is(v, #t) as the property reads it: identity, through single and multi wrapping"""
    if v is None:
        return False
    if v[0] == "S":
        return any(contains(c, t) for c in v[2])
    if v[1] == t:
        return True
    if v[0] == "W":
        return contains(v[2], t)
    if v[0] == "M":
        return any(contains(c, t) for c in v[2])
    return False


def label(v):
    if v[0] == "T":
        return f"T{v[2]}.{v[1]}"
    if v[0] == "S":
        return "S"
    return f"{v[0]}{v[1]}"


def shell_ids(t, out):
    if isinstance(t, list):
        if t[0] in ("M", "U"):
            out.add(int(t[1]))
        for x in t[1:]:
            shell_ids(x, out)
    return out


KEY_HOLLOW = "ers.Stack.Push:empty-aggregate-dropped"


def hollow(v):
    """a non-nil error value of a foreign aggregate type (Unwrap() []error / Unwind() []error) that lists no
    constituent, all the way down: Stack.Push flattens it to nothing although it is a non-nil error"""
    return v is not None and v[0] in ("M", "U") and not parts(v)


def known_witnesses():
    return {KEY_HOLLOW: ["(case (1 999) (J (M 1)))", "(case (1 2 999) (J (U 1) N (M 2 N)))"]}


def classify(line, obs, why):
    return KEY_HOLLOW if "lists no constituent" in why else None


def predicate(line, obs, allow_known=False):
    t = C.parse_sx(line)
    if obs.startswith("PANIC") or obs.startswith("bad"):
        return "implementation panicked / rejected the case: " + obs[:200]
    if obs.startswith("UNSTABLE-OBS"):
        return "observing the result twice (errors.Is / errors.As / Unwind / Len) gave two different answers: " + obs[13:300]
    if t[0] == "case":
        ids = [int(x) for x in t[1]]
        top = t[2]
        # the property is about the outermost combination; its inputs are the evaluated children
        if isinstance(top, list) and top[0] == "J":
            supplied = [ev(x) for x in top[1:]]
        else:
            v = ev(top)
            supplied = [v]
        ps = parts_all(supplied)
        if isinstance(top, list) and top[0] in ("X", "P") and supplied[0] is not None:
            pass
        if isinstance(top, list) and top[0] == "J":
            hs = [v for v in supplied if hollow(v)]
            if hs and obs == "nil":
                return (f"Join returned nil although the non-nil error {label(hs[0])} was supplied (an aggregate whose "
                        "Unwrap()/Unwind() []error lists no constituent is dropped instead of being kept as an error)")
            if (obs == "nil") != (len(ps) == 0):
                return f"Join result nil={obs == 'nil'} but {len(ps)} constituents were supplied"
            if obs == "nil":
                return None
            m = re.match(r"res=(\S+) is=(\S+) as=(\S+) unwind=\[(.*)\] len=(\S+)", obs)
            if not m:
                return "unparsable observation " + obs[:100]
            shells = shell_ids(top, set())
            for i, b in zip(ids, m.group(2)):
                if b == "0" and any(h[1] == i for h in hs):
                    return (f"errors.Is(result, #{i}) fails although the non-nil error {[label(h) for h in hs if h[1] == i][0]} was supplied "
                            "(an aggregate whose Unwrap()/Unwind() []error lists no constituent is dropped instead of being kept as an error)")
                if i in shells or b == "?":
                    continue
                want = any(contains(p, i) for p in ps)
                if (b == "1") != want:
                    return f"errors.Is(result, #{i}) = {b} but constituents say {int(want)}"
            if len(ps) == 1:
                if m.group(1) != label(ps[0]):
                    return f"Join of the single constituent {label(ps[0])} returned {m.group(1)}"
            else:
                got = [x for x in m.group(4).split(",") if x]
                want = [label(p) for p in reversed(ps)]
                if got != want:
                    return f"Unwind lists {got} but the constituents, most recent first, are {want}"
                if m.group(5) != str(len(ps)):
                    return f"Len={m.group(5)} but {len(ps)} constituents"
            for ty, a in enumerate(m.group(3).split(",")):
                if ty == 3:      # target *ers.Error: the leaves with id % 3 == 0 are ers.Error constants
                    want = any(const_in(p) for p in ps)
                    if (a != "-") != want:
                        return f"errors.As(*ers.Error) = {a} but constituents say {want}"
                    continue
                want = any(typed_in(p, ty) for p in ps)
                if (a != "-") != want:
                    return f"errors.As(type {ty}) = {a} but constituents say {want}"
        return None
    if t[0] == "colseq":
        outs = obs.split(";")
        added = []
        for i, st in enumerate(t[2:]):
            if i >= len(outs):
                return f"no observation for step {i}"
            if st[0] == "add":
                added.append(ev(st[1]))
                continue
            ps = parts_all(added)
            want = ",".join(sorted(label(p) for p in ps))
            if st[0] == "len":
                if outs[i] != str(len(ps)):
                    return f"step {i}: Collector.Len={outs[i]} but {len(ps)} constituents were added so far"
            elif st[0] in ("resolve", "iter"):
                got = outs[i][2:-1]
                if got != want:
                    return (f"step {i} ({st[0]}): the collector shows [{got}] but the errors added so far are [{want}] "
                            "(a Collector holds exactly the non-nil errors added, however it was observed before)")
        return None
    if t[0] == "collector":
        if obs.startswith("UNSTABLE "):
            return ("the outcome of concurrent Collector.Add calls depends on the interleaving (an Add was lost or duplicated): "
                    + obs[9:260])
        ids = [int(x) for x in t[1]]
        ps = parts_all([ev(x) for x in t[2:]])
        m = re.match(r"len=(\d+) nil=(\d) is=(\S*) unwind=\[(.*)\]", obs)
        if not m:
            return "unparsable observation " + obs[:100]
        if int(m.group(1)) != len(ps):
            return f"Collector.Len={m.group(1)} but {len(ps)} constituents were added"
        if (m.group(2) == "1") != (len(ps) == 0):
            return f"Collector.Resolve nil={m.group(2)} with {len(ps)} constituents"
        if sorted(x for x in m.group(4).split(",") if x) != sorted(label(p) for p in ps):
            return "Collector holds a different multiset of errors than was added"
        shells = set()
        for x in t[2:]:
            shell_ids(x, shells)
        for i, b in zip(ids, m.group(3)):
            if i in shells or b == "?":
                continue
            want = any(contains(p, i) for p in ps)
            if (b == "1") != want:
                return f"errors.Is(collector, #{i}) = {b} but constituents say {int(want)}"
    return None


def const_in(v):
    """a comparable ers.Error constant reachable through single and multi wrapping"""
    if v is None:
        return False
    if v[0] == "S":
        return any(const_in(c) for c in v[2])
    if v[0] == "L":
        return v[1] % 3 == 0 or v[1] in (1000, 1001)     # ErrRecoveredPanic / ErrInvariantViolation are ers.Error constants
    if v[0] == "W":
        return const_in(v[2])
    if v[0] == "M":
        return any(const_in(c) for c in v[2])
    return False


def typed_in(v, ty):
    if v is None:
        return False
    if v[0] == "S":
        return any(typed_in(c, ty) for c in v[2])
    if v[0] == "T":
        return v[2] == ty
    if v[0] == "W":
        return typed_in(v[2], ty)
    if v[0] == "M":
        return any(typed_in(c, ty) for c in v[2])
    return False


def nontrivial(line, obs):
    return obs is not None and obs != "nil" and ("(M " in line or "(S " in line or "(U " in line or "(J " in line[8:])


def features(line, obs):
    f = ["kind:" + line[1:line.index(" ")]]
    for k in ("(W ", "(M ", "(U ", "(S", "(J", "(X ", "(P ", "(T "):
        if k in line:
            f.append("has:" + k.strip("( "))
    f.append("result:" + ("nil" if obs == "nil" else "none" if obs is None else "S" if "res=S" in obs else "single" if obs.startswith("res=") else "collector"))
    depth, d = 0, 0
    for c in line:
        if c == "(":
            d += 1; depth = max(depth, d)
        elif c == ")":
            d -= 1
    f.append(f"depth:{min(depth, 9)}")
    return f


def shrink(line, fails):
    """prune subtrees: replace any sub-term by N or by one of its children while the failure persists"""
    t = C.parse_sx(line)
    if t[0] == "colseq":
        steps = C.ddmin(t[2:], lambda sub: fails(C.sx(["colseq", t[1]] + sub)), max_tests=120)
        return C.sx(["colseq", t[1]] + steps)
    changed = True
    budget = 300
    while changed and budget > 0:
        changed = False
        for path in list(paths(t[2] if t[0] == "case" else t, [2] if t[0] == "case" else [])):
            if budget <= 0:
                break
            sub = get(t, path)
            if sub == "N" or (t[0] == "collector" and len(path) < 1):
                continue
            cands = ["N"] + ([c for c in sub[1:] if isinstance(c, list) and c[0] in "LTWMUSJXP"] if isinstance(sub, list) else [])
            for cnd in cands:
                t2 = put(t, path, cnd)
                budget -= 1
                if fails(C.sx(t2)):
                    t, changed = t2, True
                    break
            if changed:
                break
    return C.sx(t)


def paths(t, prefix):
    if isinstance(t, list):
        yield prefix
        for i, x in enumerate(t):
            if i > 0 and isinstance(x, list) and x and x[0] in ("L", "T", "W", "M", "U", "S", "J", "X", "P"):
                yield from paths(x, prefix + [i])


def get(t, path):
    for i in path:
        t = t[i]
    return t


def put(t, path, v):
    if not path:
        return v
    t = list(t)
    t[path[0]] = put(t[path[0]], path[1:], v)
    return t


def conclusive(line):
    return line.startswith("(collector")
