"""C13 — the concurrency-safe types are free of data races.

T-gen fact extractor + Lean lock-set theorem + race-detector cross-check:
 1. tools/lockfacts re-reads $VERIF_REPO and rewrites lean/FunGen/LockFacts.lean (access sites with
    the locks held, call graph with the lock-set certificate, entries) and .work/C13/facts.json;
 2. `lake build FunProps.C13`: the generic theorem (`lockset_race_free`), `all_sites_guarded`
    (kernel evaluation of `Disciplined` on the regenerated table) and `fun_race_free`; axiom audit,
    forbidden-construct grep, leanchecker in the thorough tier;
 3. concurrent API drivers built with -race (harness/c13drv + a file generated here from the
    extractor's method list): every pair of public methods of every subject; the race detector must
    report nothing outside the sites the table marks unguarded.
A table that is not disciplined names the sites (file:line); the race reports that hit those lines
are the replay. Open findings (known-findings.jsonl, keyed by entry/site key) are exempted in the
table, must still reproduce under the race detector and are printed as KNOWN-FINDING.
"""
import time
import collections, concurrent.futures, json, os, re, shutil, subprocess, time
from . import common as C

PROP = "C13"
LEVEL = "proof"
WORKDIR = os.path.join(C.WORK, PROP)
TOOL = os.path.join(C.VERIF, "tools", "lockfacts")
LEANGEN = os.path.join(C.LEAN, "FunGen", "LockFacts.lean")

TRUSTED = [
    "the fact extractor tools/lockfacts (Go, go/parser + go/types): syntactic, type-based naming of locks and "
    "locations, no alias analysis; sound only for the locking idioms it recognises (anything else becomes an "
    "`unknown` site and fails the table). It is cross-checked by the race detector in every run",
    "tools/lockfacts/classes.json: the hand-written, reviewed protection class of every location (with reasons), "
    "constructors, the `entry_held` assumption for the sync.Pool New closure, the latch rule for limitExec",
    "the event model of Go's memory model used by the theorem: mutex exclusion and unlock->lock edges, sync.Once "
    "(body completion happens before every Do return), atomics used as publication flags, go statement edges; "
    "sync.Cond.Wait = unlock + lock; channels and contexts are not modelled (they only add happens-before edges)",
    "Conforms (FunModel/Lockset.lean): real executions enter the code only through the listed entries and hold at "
    "each site the locks the extractor lists (this is the statement of what the extractor is trusted for)",
    "one instance per type: locks and locations are named by type and field; methods that touch a second instance "
    "of their own type (Set.Equal/Extend) are handled by dropping every lock for accesses through that instance",
    "the Go race detector (-race) as the dynamic oracle for the cross-check",
]
ASSUMPTIONS = [
    "objects are published to other goroutines after construction with a happens-before edge (constructor writes "
    "are not part of the concurrent program); class `published` locations are only read afterwards (checked)",
    "class `confined` locations (cursor of an iterator handed to one caller) are used by one goroutine",
    "dt.Set domain = the synchronised set: Synchronize()/WithLock() was called before the set was shared",
    "fun.Iterator's own fields are outside the domains (its documentation restricts concurrent use to ReadOne); "
    "the producers behind the iterators are inside",
]

# --------------------------------------------------------------------------------------------------
# subjects of the race drivers: one concurrency-safe type in one configuration
# --------------------------------------------------------------------------------------------------
IMPORTS = ['"context"', '"sync"', '"github.com/tychoish/fun"', '"github.com/tychoish/fun/adt"', '"github.com/tychoish/fun/dt"',
           '"github.com/tychoish/fun/dt/cmp"', '"github.com/tychoish/fun/erc"', '"github.com/tychoish/fun/pubsub"']

SUBJECTS = [
    dict(name="pubsub.Queue/limited", domain="pubsub.Queue", recv="*pubsub.Queue[T]", gotype="*pubsub.Queue[int]",
         make="q, _ := pubsub.NewQueue[int](pubsub.QueueOptions{HardLimit: 16, SoftQuota: 8, BurstCredit: 4})\n"
              "for k := 0; k < 4; k++ { _ = q.Add(k) }\nreturn &callCtx{subj: q}"),
    dict(name="pubsub.Queue/unlimited", domain="pubsub.Queue", recv="*pubsub.Queue[T]", gotype="*pubsub.Queue[int]",
         make="q := pubsub.NewUnlimitedQueue[int]()\nfor k := 0; k < 4; k++ { _ = q.Add(k) }\nreturn &callCtx{subj: q}"),
    dict(name="pubsub.Deque/capacity", domain="pubsub.Deque", recv="*pubsub.Deque[T]", gotype="*pubsub.Deque[int]",
         make="q, _ := pubsub.NewDeque[int](pubsub.DequeOptions{Capacity: 8})\nfor k := 0; k < 4; k++ { _ = q.PushBack(k) }\nreturn &callCtx{subj: q}"),
    dict(name="pubsub.Deque/unlimited", domain="pubsub.Deque", recv="*pubsub.Deque[T]", gotype="*pubsub.Deque[int]",
         make="q := pubsub.NewUnlimitedDeque[int]()\nfor k := 0; k < 4; k++ { _ = q.PushBack(k) }\nreturn &callCtx{subj: q}"),
    dict(name="pubsub.Deque/quota", domain="pubsub.Deque", recv="*pubsub.Deque[T]", gotype="*pubsub.Deque[int]",
         make="q, _ := pubsub.NewDeque[int](pubsub.DequeOptions{QueueOptions: &pubsub.QueueOptions{HardLimit: 16, SoftQuota: 8, BurstCredit: 4}})\n"
              "for k := 0; k < 4; k++ { _ = q.PushBack(k) }\nreturn &callCtx{subj: q}"),
    dict(name="pubsub.Broker/channel", domain="pubsub.Broker", recv="*pubsub.Broker[T]", gotype="*pubsub.Broker[int]",
         make="b := pubsub.NewBroker[int](ctx, pubsub.BrokerOptions{BufferSize: 2, ParallelDispatch: true})\nsub := b.Subscribe(ctx)\n"
              "return &callCtx{subj: b, sub: sub, extra: map[string]any{\"cleanup\": func() { b.Stop() }}}"),
    dict(name="pubsub.Broker/queue", domain="pubsub.Broker", recv="*pubsub.Broker[T]", gotype="*pubsub.Broker[int]",
         make="b := pubsub.NewQueueBroker[int](ctx, pubsub.NewUnlimitedQueue[int](), pubsub.BrokerOptions{BufferSize: 2, WorkerPoolSize: 2})\n"
              "sub := b.Subscribe(ctx)\nreturn &callCtx{subj: b, sub: sub, extra: map[string]any{\"cleanup\": func() { b.Stop() }}}"),
    dict(name="pubsub.Broker/deque", domain="pubsub.Broker", recv="*pubsub.Broker[T]", gotype="*pubsub.Broker[int]",
         make="b := pubsub.NewDequeBroker[int](ctx, pubsub.NewUnlimitedDeque[int](), pubsub.BrokerOptions{BufferSize: 2})\n"
              "sub := b.Subscribe(ctx)\nreturn &callCtx{subj: b, sub: sub, extra: map[string]any{\"cleanup\": func() { b.Stop() }}}"),
    dict(name="pubsub.Distributor/queue", domain="pubsub.Distributor", recv="pubsub.Distributor[T]", gotype="pubsub.Distributor[int]",
         make="q := pubsub.NewUnlimitedQueue[int]()\nfor k := 0; k < 4; k++ { _ = q.Add(k) }\nreturn &callCtx{subj: q.Distributor()}"),
    dict(name="pubsub.Distributor/deque", domain="pubsub.Distributor", recv="pubsub.Distributor[T]", gotype="pubsub.Distributor[int]",
         make="q, _ := pubsub.NewDeque[int](pubsub.DequeOptions{Capacity: 8})\nfor k := 0; k < 4; k++ { _ = q.PushBack(k) }\nreturn &callCtx{subj: q.Distributor()}"),
    dict(name="pubsub.Distributor/channel", domain="pubsub.Distributor", recv="pubsub.Distributor[T]", gotype="pubsub.Distributor[int]",
         make="return &callCtx{subj: pubsub.DistributorChannel(make(chan int, 4))}"),
    dict(name="fun.WaitGroup", domain="fun.WaitGroup", recv="*fun.WaitGroup", gotype="*fun.WaitGroup",
         # every decrement is preceded by an increment of the same goroutine: the counter never goes negative (a
         # negative counter panics inside goroutines the library itself starts, which no driver can recover)
         override={"Done": "x.Inc(); x.Done()", "Add": "x.Add(1); x.Add(-1)"},
         make="wg := &fun.WaitGroup{}\nwg.Add(2)\nreturn &callCtx{subj: wg}"),
    dict(name="erc.Collector", domain="erc.Collector", recv="*erc.Collector", gotype="*erc.Collector",
         make="ec := &erc.Collector{}\nec.Add(fmt.Errorf(\"a\"))\nec.Add(fmt.Errorf(\"b\"))\nreturn &callCtx{subj: ec}", imports=['"fmt"']),
    dict(name="adt.Map", domain="adt.Map", recv="*adt.Map[K, V]", gotype="*adt.Map[int, int]", json='[]byte("{\\"1\\":2,\\"3\\":4}")',
         make="m := &adt.Map[int, int]{}\nfor k := 0; k < 4; k++ { m.Store(k, k) }\nreturn &callCtx{subj: m}"),
    dict(name="adt.Atomic", domain="adt.Atomic", recv="*adt.Atomic[T]", gotype="*adt.Atomic[int]", funcs=True,
         make="return &callCtx{subj: adt.NewAtomic(1)}"),
    dict(name="adt.Atomic/synchronized-funcs", domain="adt.Atomic", recv=None, gotype="*adt.Synchronized[int]", funcs=True,
         make="return &callCtx{subj: adt.NewSynchronized(1)}"),
    dict(name="adt.Synchronized", domain="adt.Synchronized", recv="*adt.Synchronized[T]", gotype="*adt.Synchronized[int]",
         make="return &callCtx{subj: adt.NewSynchronized(1)}"),
    dict(name="adt.Once", domain="adt.Once", recv="*adt.Once[T]", gotype="*adt.Once[int]", funcs=True,
         make="return &callCtx{subj: &adt.Once[int]{}}"),
    dict(name="adt.Once/constructed", domain="adt.Once", recv="*adt.Once[T]", gotype="*adt.Once[int]",
         make="return &callCtx{subj: adt.NewOnce(func() int { return 7 })}"),
    dict(name="adt.Pool", domain="adt.Pool", recv="*adt.Pool[T]", gotype="*adt.Pool[*int]", T="*int", Tval="c.ip()",
         make="p := &adt.Pool[*int]{}\np.SetConstructor(func() *int { return new(int) })\nreturn &callCtx{subj: p}"),
    dict(name="dt.Set/ordered", domain="dt.Set", recv="*dt.Set[T]", gotype="*dt.Set[int]", json='[]byte("[1,2,3]")', mirror=True,
         make="mk := func() (*dt.Set[int], *sync.Mutex) { s := &dt.Set[int]{}; mu := &sync.Mutex{}; s.WithLock(mu); s.Order(); for k := 0; k < 6; k++ { s.Add(k) }; return s, mu }\n"
              "a, mu := mk()\nb, _ := mk()\nd, _ := mk()\nreturn &callCtx{subj: a, other: b, third: d, mu: mu}"),
    dict(name="dt.Set/unordered", domain="dt.Set", recv="*dt.Set[T]", gotype="*dt.Set[int]", json='[]byte("[1,2,3]")', mirror=True,
         make="mk := func() (*dt.Set[int], *sync.Mutex) { s := &dt.Set[int]{}; mu := &sync.Mutex{}; s.WithLock(mu); for k := 0; k < 6; k++ { s.Add(k) }; return s, mu }\n"
              "a, mu := mk()\nb, _ := mk()\nd, _ := mk()\nreturn &callCtx{subj: a, other: b, third: d, mu: mu}"),
]
HANDWRITTEN = {"fun.wrappers": "fun.wrappers"}   # domain -> subject defined in harness/c13drv/wrappers.go


class NoRecipe(Exception):
    pass


def arg_for(ptype, subj, mname):
    T = subj.get("T", "int")
    tval = subj.get("Tval", "c.i")
    table = {
        "context.Context": "c.ctx", "T": tval, "K": "c.i%8", "V": "c.i", "int": "1", "error": "c.err()",
        "fun.Operation": "c.op()", "*fun.Iterator[T]": "fun.SliceIterator([]int{c.i, c.i + 1})",
        "func(T) bool": "func(%s) bool { return true }" % T, "dt.Pair[K, V]": "dt.MakePair(c.i%8, c.i)",
        "[]byte": subj.get("json", "[]byte(\"null\")"), "func()": "func() {}", "func(obj T)": "func(%s) {}" % T,
        "func() T": "func() %s { return %s }" % (T, tval), "func() V": "func() int { return c.i }",
        "func(K, V) bool": "func(int, int) bool { return true }", "func(T) T": "func(in %s) %s { return in }" % (T, T),
        "*dt.Set[T]": "c.other.(*dt.Set[int])", "cmp.LessThan[T]": "cmp.LessThanNative[int]", "*sync.Mutex": "c.mu",
        "chan T": "c.sub", "A": "x",
    }
    if ptype not in table:
        raise NoRecipe(f"no argument recipe for parameter type {ptype!r} of {mname} (add one to checks/c13.py)")
    return table[ptype]


def generate_driver(facts):
    """gen_subjects.go: one closure per public method per subject, from the extractor's method list"""
    by_dom = {d["name"]: d for d in facts["domains"]}
    imports = set(IMPORTS)
    out = []
    driven = collections.OrderedDict()
    for s in SUBJECTS:
        dom = by_dom.get(s["domain"])
        if dom is None:
            raise NoRecipe(f"subject {s['name']}: domain {s['domain']} is not in the extractor's output")
        imports.update(s.get("imports", []))
        methods = []
        for m in dom["methods"]:
            if m.get("excluded"):
                continue
            if m["recv"]:
                # the method set of *T includes the methods declared on T: a value receiver is driven too
                # (calling it copies the whole struct, guarded fields and mutex included)
                if m["recv"].lstrip("*") != (s["recv"] or "").lstrip("*"):
                    continue
                call = "x." + m["name"]
            else:
                if not s.get("funcs"):
                    continue
                if "A" not in (m["params"] or []) and s["recv"] is None:
                    continue
                if "A" in (m["params"] or []) and s["gotype"] not in ("*adt.Atomic[int]", "*adt.Synchronized[int]"):
                    continue
                pkg, fn = m["key"].split(".", 1)
                call = f"{pkg}.{fn}[int]"
            args = ", ".join(arg_for(p, s, m["key"]) for p in (m["params"] or []))
            body = f"{call}({args})"
            if m["results"]:
                body = f"c.use({body})"
            if m["name"] in s.get("override", {}):
                body = s["override"][m["name"]]
            methods.append((m["name"], f"x := c.subj.({s['gotype']}); _ = x; {body}"))
        if not methods:
            raise NoRecipe(f"subject {s['name']}: no methods to drive")
        driven[s["name"]] = [m for m, _ in methods]
        make = "\n\t\t\t".join(s["make"].split("\n"))
        ms = "\n".join(f'\t\t\t"{n}": func(c *callCtx) {{ {b} }},' for n, b in methods)
        out.append(f'\tregister(&subject{{name: "{s["name"]}", domain: "{s["domain"]}", mirror: {str(bool(s.get("mirror"))).lower()},\n'
                   f'\t\tmake: func(ctx context.Context) *callCtx {{\n\t\t\t{make}\n\t\t}},\n\t\tmethods: map[string]method{{\n{ms}\n\t\t}}}})')
    # every domain must have a subject
    covered = {s["domain"] for s in SUBJECTS} | set(HANDWRITTEN)
    missing = [d for d in by_dom if d not in covered]
    if missing:
        raise NoRecipe("no race-driver subject for domain(s) " + ", ".join(missing))
    src = "// Code generated by checks/c13.py from the extractor's method list. DO NOT EDIT.\npackage main\n\nimport (\n" + \
          "\n".join("\t" + i for i in sorted(imports)) + "\n)\n\nvar _ = cmp.LessThanNative[int]\nvar _ sync.Mutex\nvar _ = dt.MakePair[int, int]\n" \
          "var _ = erc.New\nvar _ = adt.NewAtomic[int]\nvar _ fun.Worker\n\nfunc init() {\n" + "\n".join(out) + "\n}\n"
    return src, driven


# --------------------------------------------------------------------------------------------------
def build_extractor():
    os.makedirs(C.BIN, exist_ok=True)
    out = os.path.join(C.BIN, "lockfacts")
    with C.Lock("go"):
        for attempt in range(3):
            rc, txt = C.sh(["go", "build", "-o", out, "."], cwd=TOOL, env=C.GOENV, timeout=600)
            if rc == 0:
                break
            time.sleep(3)
    return rc == 0, txt, out


def run_extractor(binary, extra_exempt=()):
    os.makedirs(WORKDIR, exist_ok=True)
    fj = os.path.join(WORKDIR, "facts.json")
    cmd = [binary, "-repo", C.REPO, "-classes", os.path.join(TOOL, "classes.json"), "-lean", LEANGEN, "-json", fj,
           "-known", os.path.join(C.VERIF, "known-findings.jsonl")]
    if extra_exempt:
        cmd += ["-exempt", ",".join(extra_exempt)]
    with C.Lock("gen"):
        for attempt in range(3):
            rc, txt = C.sh(cmd, cwd=TOOL, env=C.GOENV, timeout=600)
            if rc == 0 or ("could not import" not in txt and "no such file or directory" not in txt):
                break
            time.sleep(3)      # the shared Go build cache was trimmed under go/types' importer: try again
    facts = None
    if rc == 0 and os.path.exists(fj):
        facts = json.load(open(fj))
    return rc == 0, txt, facts


def lean_violations():
    """names of the entries / calls / sites for which `Disciplined` fails, straight from Lean"""
    f = os.path.join(WORKDIR, "Violations.lean")
    with open(f, "w") as fh:
        fh.write("import FunGen.LockFacts\nopen FunModel.Lockset FunGen.LockFacts\n"
                 "#eval (lockFacts.flatMap violations).forM (fun s => IO.println (\"VIOL \" ++ s))\n"
                 "#eval lockFacts.forM (fun F => IO.println s!\"DOM {F.name} nodes={F.nodes.length} sites={F.numSites} calls={F.numCalls} entries={F.numEntries} ok={Disciplined F}\")\n"
                 "#eval IO.println s!\"EXEMPTED {exempted.length}\"\n")
    with C.Lock("lake"):
        C.sh(["lake", "build", "FunGen.LockFacts"], cwd=C.LEAN, timeout=3000)
        rc, out = C.sh(["lake", "env", "lean", f], cwd=C.LEAN, timeout=1200)
    viol = [l[5:].strip() for l in out.splitlines() if l.startswith("VIOL ")]
    doms = {}
    for l in out.splitlines():
        m = re.match(r"DOM (\S+) nodes=(\d+) sites=(\d+) calls=(\d+) entries=(\d+) ok=(\w+)", l)
        if m:
            doms[m.group(1)] = dict(nodes=int(m.group(2)), sites=int(m.group(3)), calls=int(m.group(4)), entries=int(m.group(5)),
                                    ok=m.group(6) == "true")
    return rc == 0, viol, doms, out


def build_driver(src):
    """copy harness/ (go.mod points at REPO), add the generated file, go build -race ./c13drv"""
    moddir = os.path.join(WORKDIR, "harness")
    binp = os.path.join(C.BIN, "c13drv")
    with C.Lock("go-c13"):
        shutil.rmtree(moddir, ignore_errors=True)
        os.makedirs(os.path.join(moddir, "c13drv"))
        gm = open(os.path.join(C.HARNESS, "go.mod")).read()
        open(os.path.join(moddir, "go.mod"), "w").write(re.sub(r"=> \S+", "=> " + C.REPO, gm))
        sumf = os.path.join(C.REPO, "go.sum")
        open(os.path.join(moddir, "go.sum"), "w").write(open(sumf).read() if os.path.exists(sumf) else "")
        for f in os.listdir(os.path.join(C.HARNESS, "c13drv")):
            if f.endswith(".go") and not f.startswith("gen_"):
                shutil.copy(os.path.join(C.HARNESS, "c13drv", f), os.path.join(moddir, "c13drv", f))
        open(os.path.join(moddir, "c13drv", "gen_subjects.go"), "w").write(src)
        env = dict(C.GOENV, CGO_ENABLED="1")
        # -l: no inlining, so that the frames of a race report carry the source line of the access itself
        rc, out = C.sh(["go", "build", "-race", "-gcflags=all=-l", "-o", binp, "./c13drv"], cwd=moddir, env=env, timeout=1800)
    return rc == 0, out, binp


RACE_RE = re.compile(r"WARNING: DATA RACE\n(.*?)\n==================", re.S)


def parse_reports(stderr, subject):
    """[(pair, text, [top frame of access 1, of access 2] as repo-relative file:line, all repo frames)]"""
    reports = []
    pair = None
    pos = 0
    marks = [(m.start(), m.group(1)) for m in re.finditer(r"^PAIR \S+ (\S+ \S+)$", stderr, re.M)]
    for m in RACE_RE.finditer(stderr):
        pair = None
        for st, p in marks:
            if st < m.start():
                pair = p
        text = m.group(1)
        tops, allf = [], []
        # the two access stacks are the first two blocks; each block = header line + frames
        blocks = re.split(r"\n\n", text)
        for b in blocks[:2]:
            frames = re.findall(r"^\s+(/\S+\.go):(\d+)", b, re.M)
            rel = [f"{os.path.relpath(p, C.REPO)}:{ln}" for p, ln in frames if p.startswith(C.REPO + "/")]
            if rel:
                tops.append(rel[0])
            allf += rel
        if not allf and "fatal error: concurrent map" in text:
            continue   # a report cut short by the runtime's own map check; the fatal error is recorded by the caller
        reports.append(dict(pair=pair, subject=subject, text=text, tops=tops, frames=allf))
    return reports


FATAL_RE = re.compile(r"^fatal error: (concurrent map [^\n]*)\n(.*?)(?:\n\ngoroutine |\Z)", re.S | re.M)


def run_subject(binp, name, iters, rounds, pair=None):
    """run all pairs of one subject; a pair that kills the process with the runtime's own
    `concurrent map ...` check (a data race the runtime detects itself) is recorded as a report and
    the run resumes with the next pair"""
    env = dict(os.environ, GORACE="halt_on_error=0 history_size=6")
    t0 = time.time()
    all_err, reports, problems, done_from, rc, fatal_pairs = "", [], [], 0, 0, 0
    base = [binp, "-subject", name, "-iters", str(iters), "-rounds", str(rounds)]
    if pair:
        base += ["-pair", pair]
    for attempt in range(60):
        cmd = base + (["-from", str(done_from)] if done_from else [])
        try:
            p = subprocess.run(cmd, stdout=subprocess.PIPE, stderr=subprocess.PIPE, text=True, timeout=1500, env=env)
            err, rc = p.stderr, p.returncode
        except subprocess.TimeoutExpired as e:
            err, rc = (e.stderr or b"").decode(errors="replace") if isinstance(e.stderr, bytes) else (e.stderr or ""), -9
        all_err += err
        reports += parse_reports(err, name)
        problems += [l for l in err.splitlines() if l.startswith("DRIVER-")]
        fm = FATAL_RE.search(err)
        npairs_here = len(re.findall(r"^PAIR ", err, re.M))
        if rc == 2 and fm and npairs_here > 0 and not pair:
            frames = re.findall(r"^\s+(/\S+\.go):(\d+)", fm.group(2), re.M)
            rel = [f"{os.path.relpath(pth, C.REPO)}:{ln}" for pth, ln in frames if pth.startswith(C.REPO + "/")]
            last = re.findall(r"^PAIR \S+ (\S+ \S+)$", err, re.M)[-1]
            reports.append(dict(pair=last, subject=name, text="fatal error: " + fm.group(1) + "\n" + fm.group(2)[:3000],
                                tops=rel[:1], frames=rel, fatal=True))
            done_from += npairs_here
            fatal_pairs += 1
            continue
        break
    m = re.search(r"^DONE \S+ pairs=(\d+) methods=(\d+)", all_err, re.M)
    return dict(subject=name, rc=rc, stderr=all_err, pairs=int(m.group(1)) if m else done_from, methods=int(m.group(2)) if m else 0,
                reports=reports, wall=time.time() - t0, cmd=" ".join(base[1:]), problems=problems, fatal_pairs=fatal_pairs)


def reachable_sites(dom, node_key):
    """sites (json dicts) of the nodes reachable through in-place calls from node_key"""
    nodes = {n["key"]: n for n in dom["nodes"]}
    seen, stack, out = set(), [node_key], []
    while stack:
        k = stack.pop()
        if k in seen or k not in nodes:
            continue
        seen.add(k)
        out += nodes[k]["sites"] or []
        stack += [c["callee"] for c in (nodes[k]["calls"] or [])]
    return out


def main(tier, seed, replay=None):
    t0 = time.time()
    rep = C.Report(PROP)
    findings = C.known_findings(PROP)
    open_f = [f for f in findings if f.get("status") == "open"]
    proof_broken, notes = None, []

    # ---- 1. regenerate the facts ------------------------------------------------------------------
    okb, outb, xbin = build_extractor()
    if not okb:
        print(outb[-3000:]); print("ERROR: tools/lockfacts does not build"); return 2
    okx, outx, facts = run_extractor(xbin)
    if not okx or facts is None:
        proof_broken = "the fact extractor failed on the current source: " + (outx.strip().splitlines() or ["?"])[-1][:300]
    unknowns = [u for d in (facts["domains"] if facts else []) for u in (d["unknowns"] or [])]

    # ---- 2. proofs ----------------------------------------------------------------------------------
    ok_build, build_out = C.lake_build(["FunProps.C13"])
    names = C.theorem_names(PROP)
    table_viol, doms = [], {}
    okv, table_viol, doms, vout = lean_violations() if facts else (False, [], {}, "")
    site_obligations = sum(d["sites"] + d["calls"] + d["entries"] for d in doms.values())
    obligations = len(names) + site_obligations
    discharged, axioms = 0, {}
    if ok_build and not proof_broken:
        axioms, bad, _ = C.audit_axioms(PROP, names)
        discharged = len(names) - len(bad) + site_obligations
        if bad:
            proof_broken = "axiom audit failed: " + "; ".join(f"{n}: {a}" for n, a in bad)[:400]
        hits = C.grep_forbidden()
        if hits:
            proof_broken, discharged = "forbidden construct in Lean sources: " + hits[0], 0
        if tier == "thorough" and proof_broken is None and os.environ.get("VERIF_NO_LEANCHECKER") != "1":
            okc, outc = C.leanchecker(PROP)
            if not okc:
                proof_broken, discharged = "leanchecker rejected FunProps.C13: " + outc[-300:], 0
    elif not ok_build and not proof_broken:
        errs = [l for l in build_out.splitlines() if "error" in l]
        if table_viol:
            proof_broken = (f"all_sites_guarded fails: `decide` evaluates Disciplined to false on the regenerated table; "
                            f"{len(table_viol)} unguarded entr(y/ies)/site(s), first: {table_viol[0]}")
        else:
            proof_broken = "lake build FunProps.C13 failed: " + (errs[0] if errs else build_out[-300:])[:400]

    # ---- 3. race drivers -------------------------------------------------------------------------------
    results, driven, drv_err = [], {}, None
    if facts:
        try:
            src, driven = generate_driver(facts)
            wrappers_dom = next((d for d in facts["domains"] if d["name"] == "fun.wrappers"), None)
            okd, outd, dbin = build_driver(src)
            if not okd:
                drv_err = "the race drivers do not build against the current source: " + outd[-600:]
        except NoRecipe as e:
            drv_err = str(e)
    if facts and not drv_err:
        rc, lst = C.sh([dbin, "-list"])
        listed = {l.split("\t")[0]: l.split("\t")[2].split(",") for l in lst.splitlines() if "\t" in l}
        if wrappers_dom is not None:
            want = {m["key"] for m in wrappers_dom["methods"]}
            have = set(listed.get("fun.wrappers", []))
            if want - have:
                drv_err = "harness/c13drv/wrappers.go has no driver for " + ", ".join(sorted(want - have))
        iters, rounds = (30, 1) if tier == "quick" else (60, 1 + seed % 3 + 2)
        todo = list(listed)
        only_pair = None
        if replay:
            m = re.search(r"^# replay-cmd: .*-subject (\S+)(?: .*?-pair (\S+))?", open(replay).read(), re.M)
            if m:
                todo, only_pair, iters, rounds = [m.group(1)], m.group(2), 60, 10
        if not drv_err:
            with concurrent.futures.ThreadPoolExecutor(max_workers=min(8, os.cpu_count() or 4)) as ex:
                # subjects whose methods take a second instance get more rounds: the interesting
                # interleaving (Equal reading the other set while it is being reordered) exists once per fresh instance
                mirror = {s["name"] for s in SUBJECTS if s.get("mirror")}
                futs = [ex.submit(run_subject, dbin, n, iters, rounds * (4 if n in mirror else 1), only_pair) for n in sorted(todo)]
                results = [f.result() for f in futs]
    if drv_err:
        proof_broken = (proof_broken + " | " if proof_broken else "") + drv_err

    # ---- 4. compare -------------------------------------------------------------------------------------
    all_reports = [r for res in results for r in res["reports"]]
    strict_lines = collections.defaultdict(list)   # file:line -> site keys the table marks unguarded (all entries counted)
    for s in (facts["failing_strict"] if facts else []):
        strict_lines[s["where"]].append(s["key"])
    failing_keys = {s["key"] for s in (facts["failing"] if facts else [])}
    # known open findings: which lines do they explain?
    known_lines = {}
    if facts:
        for f in open_f:
            lines = set()
            for d in facts["domains"]:
                for n in d["nodes"]:
                    for e in n["entries"] or []:
                        if e["key"] == f["key"] or e["key"] in f.get("sites", []):
                            lines |= {s["where"] for s in reachable_sites(d, n["key"]) if not s["ok_strict"]}
                    for s in n["sites"] or []:
                        if s["key"] == f["key"] or s["key"] in f.get("sites", []):
                            lines.add(s["where"])
            known_lines[f["key"]] = lines
    nviol = 0
    # (a) the table itself is not disciplined: one violation per unguarded site group, with the race report as witness
    unguarded = [v for v in table_viol]
    if facts and not okv and not unguarded and not ok_build:
        unguarded = ["site " + k for k in sorted(failing_keys)]
    # group the unguarded sites by their cause: the nearest entry (walking the in-place calls backwards)
    # through which client code gets to the site without the lock
    site_info = {}
    for d in (facts["domains"] if facts else []):
        callers = collections.defaultdict(list)
        nodes = {n["key"]: n for n in d["nodes"]}
        for n in d["nodes"]:
            for c in n["calls"] or []:
                callers[c["callee"]].append(n["key"])
        for n in d["nodes"]:
            for st in n["sites"] or []:
                seen, frontier, cause = {n["key"]}, [n["key"]], None
                while frontier and cause is None:
                    nxt = []
                    for k in frontier:
                        ents = [e for e in (nodes[k]["entries"] or []) if not e.get("exempt")]
                        pref = [e for e in ents if not e["what"].startswith("public method")] or ents
                        if pref:
                            cause = pref[0]
                            break
                        for c in callers[k]:
                            if c not in seen:
                                seen.add(c); nxt.append(c)
                    frontier = nxt
                site_info[st["key"]] = (st, cause)
    groups = collections.OrderedDict()
    for v in unguarded:
        kind, _, key = v.partition(" ")
        st, cause = site_info.get(key, (None, None))
        gk = (key.split("|")[0], cause["what"].split(" ")[0], cause["where"]) if (kind == "site" and cause) else v
        groups.setdefault(gk, dict(cause=cause, items=[], lines=[]))
        groups[gk]["items"].append(v)
        if st:
            groups[gk]["lines"].append(st["where"])
    for gk, g in groups.items():
        if nviol >= 8:
            break
        vs, lines = g["items"], g["lines"]
        wit = [r for r in all_reports if set(r["tops"]) & set(lines)] or [r for r in all_reports if set(r["frames"]) & set(lines)]
        how = f"{g['cause']['what']} at {g['cause']['where']}" if g["cause"] else "(no entry found)"
        body = (f"# property C13: the lock-fact table regenerated from {C.REPO} is not disciplined\n# reached through: {how}\n# unguarded: "
                + "\n# unguarded: ".join(vs) + "\n")
        locs = sorted({v.split("|")[3] for v in vs if v.count("|") >= 4})
        if wit:
            r = wit[0]
            a, b = (r["pair"] or "? ?").split()
            where = sorted((set(r["tops"]) | set(r["frames"])) & set(lines))[0]
            body += (f"# witness: the race detector reports a data race at {where} while driving {r['subject']} methods {a} || {b}\n"
                     f"# replay-cmd: .work/bin/c13drv -subject {r['subject']} -pair {a},{b} -iters 60   (built with -race against $VERIF_REPO; or ./check C13 --replay <this file>)\n"
                     f"WARNING: DATA RACE\n{r['text']}\n")
            path = C.write_replay(PROP, f"violation-{seed}-{nviol}.txt", body)
            rep.violation(path, f"{len(vs)} unguarded access(es) to {', '.join(locs)[:160]} reached through {how[:200]}: Disciplined is false on the "
                                f"regenerated table and the race detector reproduces a race at {where} ({r['subject']}: {a} || {b})")
        else:
            path = C.write_replay(PROP, f"broken-{seed}-{nviol}.txt", body + "# the race drivers did not produce a report at these lines in this run\n")
            rep.violation(path, f"{len(vs)} unguarded entr(y/ies)/site(s), first {vs[0][:200]}, reached through {how[:200]}: Disciplined is false on the regenerated table", found=False)
        nviol += 1
    # (b) races the table does not predict. A report is predicted when (1) one of its frames is at a line the
    # table marks unguarded, or (2) the top frame of an access is at a site of a location that has an unguarded
    # site somewhere (the racing partner's frame can be lost: runtime.mapiterinit, truncated history), or (3) a
    # frame lies in a node that client code enters directly (escaped closure / method value / pointer) and from
    # which an unguarded site is reachable (races on client objects read through such an access path).
    line_sites = collections.defaultdict(list)
    bad_locs = collections.defaultdict(set)
    node_ranges = collections.defaultdict(list)
    for d in (facts["domains"] if facts else []):
        nodes = {n["key"]: n for n in d["nodes"]}
        reach_bad = {}
        def reaches_bad(k, seen=None):
            if k in reach_bad:
                return reach_bad[k]
            seen = seen or set()
            if k in seen or k not in nodes:
                return False
            seen.add(k)
            r = any(not st["ok_strict"] for st in nodes[k]["sites"]) or any(reaches_bad(c["callee"], seen) for c in nodes[k]["calls"])
            reach_bad[k] = r
            return r
        for n in d["nodes"]:
            for st in n["sites"]:
                line_sites[st["where"]].append((d["name"], st))
                if not st["ok_strict"]:
                    bad_locs[d["name"]].add(st["loc"])
            f, _, ln = n["where"].rpartition(":")
            direct = (not n["reach"]) or any(not e["what"].startswith("public method") for e in n["entries"])
            if direct and reaches_bad(n["key"]):
                node_ranges[f].append((int(ln), n["end_line"]))
    def predicted(r):
        if set(r["frames"]) & set(strict_lines):
            return True
        for t in r["tops"]:
            for dn, st in line_sites.get(t, []):
                if st["loc"] in bad_locs[dn]:
                    return True
        for fr in r["frames"]:
            f, _, ln = fr.rpartition(":")
            if any(a <= int(ln) <= b for a, b in node_ranges.get(f, [])):
                return True
        return False
    seen = set()
    for r in all_reports:
        if predicted(r):
            continue
        key = tuple(r["tops"])
        if key in seen or nviol >= 8:
            continue
        seen.add(key)
        a, b = (r["pair"] or "? ?").split()
        body = (f"# property C13: the race detector reports a data race at {r['tops']} but the table marks every site there as guarded\n"
                f"# (either the extractor misses an access path — broken tie — or a lock does not protect what classes.json says)\n"
                f"# replay-cmd: .work/bin/c13drv -subject {r['subject']} -pair {a},{b} -iters 60\nWARNING: DATA RACE\n{r['text']}\n")
        path = C.write_replay(PROP, f"violation-{seed}-{nviol}.txt", body)
        rep.violation(path, f"data race at {' / '.join(r['tops'])} ({r['subject']}: {a} || {b}) that the lock-fact table does not predict")
        nviol += 1
    # (c) known findings
    for f in open_f:
        lines = known_lines.get(f["key"], set())
        wit = [r for r in all_reports if set(r["tops"]) & lines]
        if wit:
            r = wit[0]
            rep.known_finding(f"{f['key']}: {f['what']} (race detector: still reproduces at {sorted(set(r['tops']) & lines)[0]}, {r['subject']}: {r['pair']})")
        elif lines:
            rep.known_finding(f"{f['key']}: {f['what']} (table: entry still present, {len(lines)} unguarded lines; no race report in this run)")
        else:
            rep.note(f"known finding {f['key']} no longer matches an entry/site of the table")
    for res in results:
        for pr in res["problems"]:
            path = C.write_replay(PROP, f"broken-{seed}-driver.txt", f"# {pr}\n# replay-cmd: .work/bin/c13drv {res['cmd']}\n")
            rep.violation(path, "race driver problem: " + pr, found=False)
        if res["rc"] not in (0, 66) and not res["problems"]:
            path = C.write_replay(PROP, f"broken-{seed}-driver.txt", f"# exit {res['rc']}\n# replay-cmd: .work/bin/c13drv {res['cmd']}\n{res['stderr'][-3000:]}\n")
            rep.violation(path, f"race driver for {res['subject']} exited with {res['rc']}", found=False)
    if proof_broken and not rep.violations:
        path = C.write_replay(PROP, f"broken-{seed}.txt", f"# property C13: {proof_broken}\n" + "\n".join("# " + u for u in unknowns[:20]) + "\n")
        rep.violation(path, proof_broken, found=False)

    # ---- 5. evidence ---------------------------------------------------------------------------------------
    pairs = sum(r["pairs"] for r in results)
    sites_per_type = {d["name"]: d["n_sites"] for d in (facts["domains"] if facts else [])}
    sample = []
    if facts:
        for d in facts["domains"][:3]:
            for n in d["nodes"][:2]:
                for s in (n["sites"] or [])[:1]:
                    sample.append({"domain": d["name"], "node": n["key"], "ctx": n["ctx"], "site": s["where"], "loc": s["loc"],
                                   "kind": s["kind"], "held": sorted(set(s["held"] + n["assumes"])), "class": s["class"]})
    cov = {
        "obligations": obligations, "discharged": discharged if (ok_build and not proof_broken) else 0,
        "checker_cmd": "tools/lockfacts -repo $VERIF_REPO -lean lean/FunGen/LockFacts.lean && cd lean && lake build FunProps.C13 && "
                       "lake env lean <#print axioms of each theorem>" + (" && lake env leanchecker FunProps.C13" if tier == "thorough" else "")
                       + " && go build -race harness/c13drv && c13drv -subject <each>",
        "trusted_base": C.TRUSTED_BASE[:2] + TRUSTED,
        "theorems": names, "axioms_used": sorted({a for v in axioms.values() for a in v}),
        "site_obligations": site_obligations, "lean_table": doms,
        "sites_extracted_per_type": sites_per_type,
        "unknown_sites": len(unknowns), "table_unguarded": len(table_viol),
        "exempted_by_known_findings": sorted(known_lines),
        "evaluations": pairs, "distinct_nontrivial": sum(r["pairs"] for r in results if not r["problems"]),
        "rule": "one evaluation = one pair {A,B} of public methods of one subject (type in one configuration) driven by 4-5 goroutines on a "
                "fresh shared instance under the race detector, with everything the calls hand out used on the spot; all pairs of all methods "
                "the extractor lists are driven (generated), so every pair is distinct; non-trivial = the pair ran to completion",
        "subjects": {r["subject"]: {"methods": r["methods"], "pairs": r["pairs"], "race_reports": len(r["reports"]), "wall_s": round(r["wall"], 1)} for r in results},
        "pairs_of_methods_driven": pairs, "races_reported": len(all_reports),
        "races_at_unguarded_sites": sum(1 for r in all_reports if predicted(r)),
        "samples": sample, "traces_validated_against_impl": pairs,
        "extractor_notes": {d["name"]: d["notes"] for d in (facts["domains"] if facts else []) if d["notes"]},
    }
    C.write_evidence(PROP, tier, seed, LEVEL, cov, ASSUMPTIONS, time.time() - t0, len(rep.violations))
    print(f"C13: theorems {len(names)} + {site_obligations} table obligations, discharged {cov['discharged']}/{obligations}; "
          f"{sum(sites_per_type.values())} sites in {len(sites_per_type)} domains, {len(table_viol)} unguarded; "
          f"{pairs} method pairs driven over {len(results)} subjects, {len(all_reports)} race reports; {time.time()-t0:.1f}s")
    return rep.finish()
