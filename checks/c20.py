"""C20 — pubsub.Queue and pubsub.Deque under deterministic schedules (T-sched); see queueref.py / dequeref.py for the oracles."""
from . import common as C
from . import schedlog as SL
from . import queueref as Q
from . import dequeref as D

PROP = "C20"
LEVEL = "proof"
MIX = {"roles": ["producer", "iter", "iter", "consumer", "producer"], "close": 0.45}
RULE = ("2-5 logical threads over one Queue (unlimited, or hard limit<=6 with soft quota and burst credit) with programs drawn "
        "from the role mix " + str(MIX["roles"]) + "; schedules are seeded choice lists among the enabled atomic segments "
        "{start, resume-after-wake, cancel, helper-fire}; every schedule is replayed action by action on the Lean model "
        "(observations and enabled sets must agree) and checked by the sequential reference queue. Non-trivial: some "
        "operation parked and something was woken; distinct = distinct case lines.")
TRUSTED = ["sync.Mutex / sync.Cond (FIFO wake-up) / context modelled", "the verif hooks in pubsub/queue.go mark the segment "
           "boundaries (MANIFEST.hooks)", "burst credit is a float64: the executable model uses Lean's IEEE Float"]
ASSUMPTIONS = ["segments are atomic (they run under q.mu / dq.mtx)"]
DMIX = {"roles": ["pusher", "biter", "iter", "briter", "riter", "consumer", "producer", "biter", "briter"], "close": 0.3, "shuffle": True}
DMIX_NOREMOVE = {"roles": ["pusher", "biter", "briter", "iter", "riter", "pusher"], "close": 0.3, "shuffle": True}
RULE += (" Deque half: the same over one pubsub.Deque with iterators of the four kinds Producer / ProducerReverse / ProducerBlocking / "
         "ProducerReverseBlocking (role mixes " + str(DMIX["roles"]) + " and, without removals, " + str(DMIX_NOREMOVE["roles"]) +
         "); oracle: checks/dequeref.py (exact next item while the element yielded last is still linked; after its removal: only "
         "values that were in the deque, no panic, return on Close / cancellation).")
TRUSTED = TRUSTED + ["the verif hooks in pubsub/deque.go"]


def gen(rng, tier, open_keys):
    n = 500 if tier == "quick" else 40000
    out = [Q.gen_case(rng, MIX) for _ in range(n)]
    out += [D.gen_case(rng, DMIX) for _ in range(n)]
    out += [D.gen_case(rng, DMIX_NOREMOVE) for _ in range(n)]
    return out


def corpus():
    return ["(dqprobe iter)",
            # a blocking iterator standing on the last (first) element must be woken by a push at the back (front)
            "(deque (cfg unlimited) (thread (pushb 1)) (thread (biter 1) (biter 1)) (thread (pushb 2)) (choices 0 0 0 0))",
            "(deque (cfg unlimited) (thread (pushb 1)) (thread (briter 1) (briter 1)) (thread (pushf 2)) (choices 0 0 0 0))",
            "(deque (cfg unlimited) (thread (pushf 1) (pushb 2) (close)) (thread (waitf) (waitb) (waitf)) (thread (biter 0) (biter 0) (biter 0)) (choices 1 1 0 0 1 1 0 0 0 0 0 0 0 0))",
            "(deque (cfg soft 3 1 2 1) (thread (pushb 1) (pushb 2) (pushb 3) (pushb 4) (fpushb 5) (len)) (thread (riter 0) (riter 0) (iter 0)) (choices 0 1 0 1 0 1))",
           ] + ["(queue (cfg soft 3 1 2 1) (thread (add 1)) (thread (badd 2)) (thread (next 0) (next 0)) (thread (add 3)) (choices 0 0 0 0 0))",
            "(qprobe iter)", "(queue (cfg unlimited) (thread (add 1) (add 2) (close)) (thread (wait) (wait) (wait)) (thread (next 0) (next 0) (next 0)) (choices 1 1 0 0 1 1 0 0 0 0 0 0 0 0))",
            "(queue (cfg soft 2 1 1 1) (thread (badd 1) (badd 2) (badd 3) (len)) (thread (remove) (wait)) (choices 0 0 0 0 0 0 0 0))"]


def is_deque(line):
    return line.startswith("(deque") or line.startswith("(dqprobe")


def predicate(line, obs, allow_known=False):
    return D.full_predicate(line, obs) if is_deque(line) else Q.full_predicate(line, obs)


def features(line, obs):
    return D.features(line, obs) if is_deque(line) else Q.features(line, obs)


def nontrivial(line, obs):
    return D.nontrivial(line, obs) if is_deque(line) else Q.nontrivial(line, obs)


def shrink(line, fails):
    return line if "probe" in line else SL.shrink_choices(line, fails)


def classify(line, obs, why):
    return None
