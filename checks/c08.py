"""C08 — the broker delivers each message exactly once, in order, to every subscriber (T-out).
A case is a deterministically sequenced scenario run on the real broker by harness/c08.go; the Lean
driver evaluates the model's outcome predicate `Broker.allowed` on the observation and the oracle of
brokerref.py evaluates the property text on it."""
import sys
from . import common as C
from . import brokerref as B

PROP = "C08"
LEVEL = "proof"
RULE = ("7 distributor back-ends (unbuffered/buffered channel, unlimited and limited Queue, unlimited and capacity-bound "
        "Deque, LIFO broker) x {ParallelDispatch} x WorkerPoolSize 1..3 x BufferSize 0..2 x scripted scenarios sequenced by "
        "call returns and process quiescence (never by sleeping): steady publishing by 1-3 publishers to 1-3 subscribers, "
        "bursts completing before any subscriber reads, concurrent publishers, subscribers joining and leaving between "
        "publishes, dispatch workers held between Receive and the read of the subscriber map, random step sequences. "
        "Non-trivial: some subscriber received a message; distinct = distinct case lines.")
TRUSTED = ["the tie is behavioural (T-out): the model's outcome predicate and the property oracle are evaluated on what the "
           "real broker did in sequenced scenarios; the broker's internal interleavings are not driven step by step",
           "quiescence = a stop-the-world goroutine dump in which every goroutine other than the sequencer is parked "
           "(plus, for Deque back-ends, a probe taken under the deque's mutex by a waiter that found it empty)",
           "Go channels, select, context and sync.Map.Range as modelled in FunModel/Broker.lean",
           "drift guard: normalised hash of the modelled functions of pubsub/broker.go and buffer.go"]
ASSUMPTIONS = ["message values are unique (publisher, sequence number)", "each publisher publishes sequentially",
               "a subscriber 'keeps receiving' = its goroutine is in a receive on the subscription channel whenever it is idle"]
KEY_D24 = B.KEY_D24


def gen(rng, tier, open_keys):
    return B.gen(rng, tier, B.C08_KINDS, risky=KEY_D24 not in open_keys)


def _many(n, backend, pubs):
    subs = " ".join(f"(sub {i} open)" for i in range(n))
    return f"(broker (backend {backend}) (opts (parallel 1) (workers 1) (buffer 0)) (script {subs} {pubs}))"


def corpus():
    return [
        # parallel dispatch to many subscribers (fan-out wider than any internal batch size)
        _many(33, "queue unl", "(pub 0 2) (quiesce) (pub 1 1) (quiesce)"), _many(40, "chan 0", "(pub 0 3) (quiesce)"),
        "(broker (backend chan 0) (opts (parallel 0) (workers 1) (buffer 0)) (script (sub 0 open) (sub 1 open) (pub 0 3) (pub 1 2) (quiesce)))",
        "(broker (backend deque unl) (opts (parallel 0) (workers 1) (buffer 0)) (script (sub 0 gated) (pub 0 5) (quiesce) (open 0) (quiesce)))",
        "(broker (backend queue unl) (opts (parallel 1) (workers 3) (buffer 0)) (script (sub 0 open) (sub 1 gated) (hold) (pub 0 3) (quiesce) (release) (open 1) (quiesce)))",
        "(broker (backend lifo 2) (opts (parallel 0) (workers 1) (buffer 1)) (script (sub 0 gated) (sub 1 open) (pub 0 6) (quiesce)))",
        "(broker (backend chan 0) (opts (parallel 0) (workers 1) (buffer 0)) (script (sub 0 open) (pub 0 2) (quiesce) (unsub 0) (pub 0 1) (quiesce)))",
    ]


def known_witnesses():
    # Unsubscribe called after Publish returned, processed by the event loop before the dispatch worker reads
    # the subscriber map (the worker is held at the hook between Receive and subs.Keys())
    return {KEY_D24: [
        "(broker (backend chan 0) (opts (parallel 0) (workers 1) (buffer 0)) (script (sub 0 open) (hold) (pub 0 1) (quiesce) (unsub 0) (release) (quiesce)))",
        "(broker (backend queue unl) (opts (parallel 0) (workers 1) (buffer 0)) (script (sub 0 open) (sub 1 open) (hold) (pub 0 1) (quiesce) (unsub 1) (release) (quiesce)))",
    ]}


def predicate(line, obs, allow_known=False):
    return B.c08_predicate(line, obs, allow_known)[0]


def classify(line, obs, why):
    """the known shape, else the kind of failure (numbers removed) so that one kind is reported once"""
    import re
    key = B.c08_predicate(line, obs)[1] if obs else None
    return key or re.sub(r"\d+", "N", (why or "no output")[:60])


features, nontrivial, shrink = B.features, B.nontrivial, B.shrink


def extra_coverage():
    return {"drift_guard": B.drift_status()}


def main(tier, seed, replay):
    return B.judged_main(sys.modules[__name__], tier, seed, replay)
