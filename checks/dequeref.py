"""Sequential reference semantics of pubsub.Deque (bounded double-ended queue over the three limit
trackers) and the oracles of C06 / C07 / C20 over a T-sched log. Every segment of the log runs
under the deque's mutex, so the order of the log is a linearization order: the oracles replay the
log against the reference, segment by segment (the linearization point of an operation is the
segment in which it returns).

The reference is written from the property statements, not from deque.go: a Python list with a
capacity rule; nothing here knows about condition variables, links or helper goroutines."""
import re
from . import common as C
from . import schedlog as SL
from .queueref import Tracker as SoftTracker

PUSH = {"pushf": "front", "pushb": "back"}
FPUSH = {"fpushf": "front", "fpushb": "back"}
POP = {"popf": "front", "popb": "back"}
WAIT = {"waitf": "front", "waitb": "back"}
WPUSH = {"wpushf": "front", "wpushb": "back"}
ITER = {"iter": ("front", False), "riter": ("back", False), "biter": ("front", True), "briter": ("back", True)}
OPNAME = {"pushf": "PushFront", "pushb": "PushBack", "fpushf": "ForcePushFront", "fpushb": "ForcePushBack",
          "popf": "PopFront", "popb": "PopBack", "waitf": "WaitFront", "waitb": "WaitBack",
          "wpushf": "WaitPushFront", "wpushb": "WaitPushBack", "iter": "Producer", "riter": "ProducerReverse",
          "biter": "ProducerBlocking", "briter": "ProducerReverseBlocking"}


# ---------------- configuration (DequeOptions.Validate as a decision table) -------------------
def validate(unlimited, capacity, q):
    """-> None (ErrConfigurationMalformed) or ('unlimited',) / ('cap', n) / ('soft', hard, soft, burst)"""
    if q is not None:
        hard, soft, burst = q
        if hard <= 0 or hard < soft or burst < 0:
            return None
        if soft <= 0:
            soft = hard
        if burst == 0:
            burst = float(soft)
        if capacity > 0 or unlimited:
            return None
        return ("soft", hard, soft, burst)
    if unlimited and capacity == 0:
        return ("unlimited",)
    if unlimited:
        return None
    return ("cap", capacity if capacity > 0 else 1)


def opts_of_cfg(cfg):
    k = cfg[1]
    if k == "unlimited":
        return True, 0, None
    if k == "cap":
        return False, int(cfg[2]), None
    if k == "soft":
        return False, 0, (int(cfg[2]), int(cfg[3]), float(int(cfg[4])) / float(int(cfg[5])))
    if k == "opts":
        q = cfg[4]
        qq = None if q == "nil" else (int(q[1]), int(q[2]), float(int(q[3])) / float(int(q[4])))
        return int(cfg[2]) != 0, int(cfg[3]), qq
    raise ValueError("cfg " + str(cfg))


class Limit:
    """len/cap rule of the three trackers"""
    def __init__(self, v):
        self.kind = v[0]
        self.length = 0
        if self.kind == "cap":
            self.capacity = v[1]
        elif self.kind == "soft":
            self.t = SoftTracker(["cfg", "unlimited"])
            self.t.kind = "soft"
            self.t.hard, self.t.soft, self.t.credit, self.t.length = v[1], v[2], v[3], 0

    def cap(self):
        return None if self.kind == "unlimited" else self.capacity if self.kind == "cap" else self.t.soft

    def has_room(self):          # cap() > len()
        c = self.cap()
        return c is None or c > self.length

    def at_cap(self):            # cap() == len(): what ForcePush calls full
        return self.cap() == self.length

    def hard_limit(self):
        return None if self.kind == "unlimited" else self.capacity if self.kind == "cap" else self.t.hard

    def add(self):
        if self.kind == "unlimited":
            self.length += 1; return "ok"
        if self.kind == "cap":
            if self.length >= self.capacity:
                return "full"
            self.length += 1; return "ok"
        r = self.t.add(); self.length = self.t.length
        return r

    def remove(self):
        if self.kind == "soft":
            self.t.remove(); self.length = self.t.length
        else:
            self.length -= 1


class RefDeque:
    def __init__(self, v):
        self.lim = Limit(v)
        self.items = []          # (uid, value), front first
        self.closed = False
        self.values = {}         # uid -> value, every item ever pushed
        self.gone = set()        # uids popped or evicted
        self.returned = set()    # uids handed out by a pop / wait
        self.nextuid = 0

    def push(self, end, v):
        """plain push; returns the result string"""
        if self.closed:
            return "closed"
        r = self.lim.add()
        if r == "ok":
            uid = self.nextuid; self.nextuid += 1
            self.values[uid] = v
            if end == "front":
                self.items.insert(0, (uid, v))
            else:
                self.items.append((uid, v))
        return r

    def take(self, end):
        uid, v = self.items.pop(0) if end == "front" else self.items.pop()
        self.gone.add(uid)
        self.lim.remove()
        return uid, v

    def at(self, end):
        return self.items[0] if end == "front" else self.items[-1]


def cfg_of(line):
    t = C.parse_sx(line)
    return next(x for x in t[1:] if isinstance(x, list) and x and x[0] == "cfg")


class IterRef:
    """what the property lets iterator k do next. `last` = uid of the element yielded last (None =
    nothing yet). While that element is still in the deque (or nothing was yielded yet) the next
    value is determined: the neighbour in iteration direction. Once it has been removed the
    statement only demands: values that were in the container, no panic, return on Close/cancel."""
    def __init__(self):
        self.last = None
        self.yielded = []


def iter_expect(q, it, direction):
    """-> ('exact', (uid, v) or None) | ('loose',)"""
    uids = [u for u, _ in q.items]
    seq = q.items if direction == "front" else list(reversed(q.items))
    if it.last is None:
        return ("exact", seq[0] if seq else None)
    if it.last in uids:
        i = [u for u, _ in seq].index(it.last)
        return ("exact", seq[i + 1] if i + 1 < len(seq) else None)
    return ("loose",)


def apply_op(q, st, op, cancelled, iters):
    """apply one segment of `op` that ended as `st` to the reference; returns a violation or None"""
    k, r = op[0], st.ret
    name = OPNAME.get(k, k)
    if k in PUSH:
        want = q.push(PUSH[k], int(op[1]))
        return None if r == want else f"{name}({op[1]}) returned {r} but the sequential deque says {want}"
    if k in FPUSH:
        end = FPUSH[k]
        if q.closed:
            return None if r == "closed" else f"{name}({op[1]}) on a closed deque returned {r}"
        if q.lim.at_cap():
            if not q.items:
                return f"{name}: reference deque is at capacity while empty"
            q.take("back" if end == "front" else "front")       # exactly one, from the opposite end
            want = q.push(end, int(op[1]))
            if want != "ok":
                return f"{name}({op[1]}): after evicting one item the reference still refuses ({want})"
            return None if r == "ok" else f"{name}({op[1]}) on a full deque returned {r}; it must evict one item and succeed"
        want = q.push(end, int(op[1]))
        return None if r == want else f"{name}({op[1]}) returned {r} but the sequential deque says {want}"
    if k in POP:
        if q.closed or not q.items:
            return None if r == "none" else f"{name} on " + ("a closed" if q.closed else "an empty") + f" deque returned {r}"
        uid, v = q.take(POP[k])
        if uid in q.returned:
            return f"{name} returned item {v} a second time"
        q.returned.add(uid)
        return None if r == str(v) else f"{name} returned {r} but the item at that end is {v}"
    if k in WAIT:
        end = WAIT[k]
        if r is None:
            if q.items or q.closed or cancelled:
                return f"{name} blocks although " + ("the deque is closed" if q.closed else "the deque is not empty"
                                                      if q.items else "its context is cancelled")
            return None
        if q.closed:
            return None if r == "closed" else f"{name} on a closed deque returned {r}"
        if r == "ctx":
            return None if cancelled else f"{name} returned a context error but its context was not cancelled"
        if r == "closed":
            return f"{name} returned ErrQueueClosed on an open deque"
        if not q.items:
            return f"{name} returned {r} on an empty deque"
        uid, v = q.take(end)
        if uid in q.returned:
            return f"{name} returned item {v} a second time"
        q.returned.add(uid)
        return None if r == str(v) else f"{name} returned {r} but the item at that end is {v}"
    if k in WPUSH:
        end = WPUSH[k]
        if r is None:
            if q.lim.has_room() or q.closed or cancelled:
                return f"{name}({op[1]}) blocks although " + ("the deque is closed" if q.closed else "there is free capacity"
                                                               if q.lim.has_room() else "its context is cancelled")
            return None
        if q.closed:
            return None if r == "closed" else f"{name}({op[1]}) on a closed deque returned {r}"
        if r == "ctx":
            return None if cancelled else f"{name} returned a context error but its context was not cancelled"
        if not q.lim.has_room():
            return f"{name}({op[1]}) returned {r} while the deque is at capacity"
        want = q.push(end, int(op[1]))
        return None if r == want else f"{name}({op[1]}) returned {r} but the sequential deque says {want}"
    if k == "len":
        if int(r) != len(q.items):
            return f"Len()={r} but {len(q.items)} items are in the deque"
        hl = q.lim.hard_limit()
        if hl is not None and int(r) > hl:
            return f"Len()={r} exceeds the capacity {hl}"
        return None
    if k == "close":
        q.closed = True
        return None
    if k in ITER:
        direction, blocking = ITER[k]
        key = k + ":" + op[1]
        it = iters.setdefault(key, IterRef())
        exp = iter_expect(q, it, direction)
        if r is not None and r.startswith("PANIC"):
            return f"{name} iterator {op[1]} panicked"
        if r is None:
            if not blocking:
                return f"non-blocking {name} iterator {op[1]} blocked"
            if exp[0] == "exact" and exp[1] is not None:
                return f"{name} iterator {op[1]} blocks although item {exp[1][1]} is next in its direction"
            if q.closed:
                return f"{name} iterator {op[1]} blocks although the deque is closed"
            if cancelled:
                return f"{name} iterator {op[1]} blocks although its context is cancelled"
            return None
        if r in ("eof", "closed"):
            if exp[0] == "exact" and exp[1] is not None:
                return f"{name} iterator {op[1]} ended ({r}) although item {exp[1][1]} is next in its direction"
            if blocking and not q.closed:
                return f"blocking {name} iterator {op[1]} ended ({r}) although the deque is not closed"
            return None
        if r == "ctx":
            return None if cancelled else f"{name} iterator {op[1]} returned a context error without cancellation"
        v = int(r)
        if exp[0] == "exact":
            if exp[1] is None:
                return f"{name} iterator {op[1]} yielded {v} but it is at the end of the deque"
            if exp[1][1] != v:
                return f"{name} iterator {op[1]} yielded {v} but the next item in its direction is {exp[1][1]}"
            it.last = exp[1][0]
        else:
            cands = [u for u, val in q.values.items() if val == v]
            if not cands:
                return f"{name} iterator {op[1]} yielded {v}, which was never in the deque"
            it.last = cands[0]
        it.yielded.append(v)
        return None
    return f"unknown operation {k}"


def replay(line, obs, on_step=None):
    progs = SL.programs_of(line)
    steps, blocked, state, err = SL.parse(obs)
    if err and err.startswith("TIMEOUT"):
        return f"a goroutine that had to run did not: {err} (lost wake-up / hang)", None
    if err:
        return err, None
    v = validate(*opts_of_cfg(cfg_of(line)))
    if v is None:
        return "case with a malformed configuration reached the scheduler", None
    q = RefDeque(v)
    pc = [0] * len(progs)
    cancelled = set()
    inflight = {}
    iters = {}
    for st in steps:
        if st.kind == "c":
            cancelled.add(st.tid)
            continue
        if st.kind == "f":
            continue
        op = progs[st.tid][pc[st.tid]]
        if st.kind == "s":
            cancelled.discard(st.tid)
        why = apply_op(q, st, op, st.tid in cancelled, iters)
        if why:
            return why, None
        hl = q.lim.hard_limit()
        if hl is not None and len(q.items) > hl:
            return f"the deque holds {len(q.items)} items, more than its capacity {hl}", None
        if st.ret is not None:
            pc[st.tid] += 1
            cancelled.discard(st.tid)
            inflight.pop(st.tid, None)
        else:
            inflight[st.tid] = op
    return None, (q, blocked, state, inflight, cancelled, iters)


def final_checks(q, blocked, state, inflight, cancelled, iters):
    """quiescence (C07, C20): nothing may stay blocked whose condition holds. The log ends when no
    start / helper is left to run and every woken goroutine has been seen to park again (D28)."""
    for b in blocked:
        tid = int(b.split("@")[0])
        op = inflight.get(tid)
        if op is None:
            continue
        k = op[0]
        name = OPNAME.get(k, k)
        canc = tid in cancelled
        if k in WAIT and (q.items or q.closed or canc):
            return f"at quiescence thread {tid} is still blocked in {name} although " + (
                "the deque is closed" if q.closed else "the deque is not empty" if q.items else "its context is cancelled")
        if k in WPUSH and (q.lim.has_room() or q.closed or canc):
            return f"at quiescence thread {tid} is still blocked in {name} although " + (
                "the deque is closed" if q.closed else "there is free capacity" if q.lim.has_room() else "its context is cancelled")
        if k in ITER:
            direction, _ = ITER[k]
            it = iters.get(k + ":" + op[1], IterRef())
            exp = iter_expect(q, it, direction)
            pending = exp[0] == "exact" and exp[1] is not None
            if pending or q.closed or canc:
                return f"at quiescence thread {tid}'s {name} iterator is still blocked although " + (
                    f"the unseen item {exp[1][1]} is next in its direction" if pending else "the deque is closed" if q.closed
                    else "its context is cancelled")
    want = f"len={len(q.items)} closed={int(q.closed)} items=[{','.join(str(v) for _, v in q.items)}]"
    if state != want:
        return f"final state `{state}` but the sequential history leaves `{want}`"
    return None


def opts_predicate(line, obs):
    t = C.parse_sx(line)
    q = t[3]
    qq = None if q == "nil" else (int(q[1]), int(q[2]), float(int(q[3])) / float(int(q[4])))
    v = validate(int(t[1]) != 0, int(t[2]), qq)
    if v is None:
        return None if obs == "malformed" else f"NewDeque accepted a malformed configuration: {obs}"
    lim = Limit(v)
    n = 0
    for _ in range(8):
        if lim.add() != "ok":
            break
        n += 1
    want = f"ok accepts={n}"
    return None if obs == want else f"NewDeque gave `{obs}` but the options describe `{want}`"


def full_predicate(line, obs):
    if obs is None:
        return "no output"
    if line.startswith("(dstress"):
        from . import queueref as _Q
        return _Q.stress_predicate(line, obs)
    if line.startswith("(dqprobe"):
        if obs != "probe unlocked=0 returned=1":
            return ("a cancellation landing between the waiter's select and cond.Wait is lost: the helper's Broadcast ran "
                    "while the waiter still held the mutex and the waiter stayed blocked (" + obs + ")")
        return None
    if line.startswith("(dequeopts"):
        return opts_predicate(line, obs)
    if obs.startswith("PANIC") or obs.startswith("bad") or obs in ("malformed", "nil-tracker"):
        return "harness error: " + obs[:120]
    if "PANIC" in obs:
        return "an operation panicked: " + obs[max(0, obs.index("PANIC") - 30):obs.index("PANIC") + 60]
    why, rest = replay(line, obs)
    if why:
        return why
    return final_checks(*rest)


# ---------------- generators ------------------------------------------------------------------
def gen_cfg(rng, bounded=False):
    r = rng.random()
    if r < 0.25 and not bounded:
        return ["cfg", "unlimited"]
    if r < 0.65:
        return ["cfg", "cap", rng.choice([1, 1, 2, 2, 3, 4])]
    hard = rng.choice([1, 2, 3, 4, 6])
    soft = min(rng.choice([0, 1, hard, max(1, hard // 2)]), hard)
    bn, bd = rng.choice([(0, 1), (1, 1), (2, 1), (1, 2), (3, 2), (5, 1)])
    return ["cfg", "soft", hard, soft, bn, bd]


def _ops_for(role, rng, v, tid, n):
    ops = []
    for _ in range(n):
        if role == "producer":
            ops.append(rng.choice([["pushf", v()], ["pushb", v()], ["pushb", v()], ["fpushf", v()], ["fpushb", v()],
                                   ["wpushf", v()], ["wpushb", v()]]))
        elif role == "pusher":          # plain pushes only (bursts)
            ops.append(rng.choice([["pushf", v()], ["pushb", v()]]))
        elif role == "bproducer":
            ops.append(rng.choice([["wpushf", v()], ["wpushb", v()]]))
        elif role == "forcer":
            ops.append(rng.choice([["fpushf", v()], ["fpushb", v()]]))
        elif role == "consumer":
            ops.append(rng.choice([["waitf"], ["waitb"], ["popf"], ["popb"]]))
        elif role == "waiter":
            ops.append(rng.choice([["waitf"], ["waitb"]]))
        elif role == "waiterf":
            ops.append(["waitf"])
        elif role == "waiterb":
            ops.append(["waitb"])
        elif role == "popper":
            ops.append(rng.choice([["popf"], ["popb"]]))
        elif role in ("iter", "riter", "biter", "briter"):
            # one iterator per thread: a producer closure that is called by a second goroutine while a
            # first call is parked inside it is outside C20 (and outside the model: the parked call
            # keeps watching the element it started from, the closure's cursor moves under it)
            ops.append([role, tid])
        elif role == "mixed":
            ops.append(rng.choice([["pushf", v()], ["pushb", v()], ["popf"], ["popb"], ["len"], ["waitf"], ["waitb"],
                                   ["wpushb", v()], ["wpushf", v()], ["fpushb", v()], ["fpushf", v()], ["len"]]))
    return ops


def gen_case(rng, mix, nthreads=None, nchoices=None):
    cfg = gen_cfg(rng, mix.get("bounded", False))
    nthreads = nthreads or rng.choice([2, 3, 3, 4, 5])
    progs = []
    val = [0]

    def v():
        val[0] += 1; return val[0]
    roles = mix["roles"]
    for i in range(nthreads):
        role = roles[i] if (i < len(roles) and not mix.get("shuffle")) else rng.choice(roles)
        ops = _ops_for(role, rng, v, i, rng.choice([1, 2, 3, 5]))
        if role in ("producer", "mixed", "pusher", "forcer") and rng.random() < mix.get("close", 0.3):
            ops.insert(rng.randrange(len(ops) + 1), ["close"])
        if rng.random() < 0.2:
            ops.append(["len"])
        progs.append(["thread"] + ops)
    choices = [rng.randrange(0, 12) for _ in range(nchoices or rng.choice([5, 15, 30, 60]))]
    return C.sx(["deque", cfg] + progs + [["choices"] + choices])


def gen_shape(rng):
    """the schedule shapes of C07: bursts of pushes before any waiter runs, waiters first, pop racing
    push, close racing wait, cancel racing park; 1-3 consumers, 1-2 producers, both ends"""
    val = [0]

    def v():
        val[0] += 1; return val[0]
    ncons, nprod = rng.choice([1, 2, 3]), rng.choice([1, 2])
    shape = rng.choice(["burst", "waiters-first", "pop-races-push", "close-races-wait", "cancel-races-park",
                        "wpush-full", "mixed-ends"])
    cfg = gen_cfg(rng, bounded=(shape == "wpush-full"))
    cons = []
    for _ in range(ncons):
        kind = rng.choice(["waiterf", "waiterb", "waiter"])
        cons.append(["thread"] + _ops_for(kind, rng, v, 0, rng.choice([1, 2, 3])))
    prods = []
    for _ in range(nprod):
        kind = {"burst": "pusher", "wpush-full": "bproducer"}.get(shape, rng.choice(["pusher", "producer", "forcer"]))
        prods.append(["thread"] + _ops_for(kind, rng, v, 0, rng.choice([2, 3, 5])))
    extra = []
    if shape == "pop-races-push":
        extra.append(["thread"] + _ops_for("popper", rng, v, 0, rng.choice([1, 2, 3])))
    if shape == "close-races-wait" or rng.random() < 0.25:
        extra.append(["thread", ["close"]])
    if shape == "wpush-full":
        extra.append(["thread"] + _ops_for("popper", rng, v, 0, rng.choice([1, 2])))
    n = rng.choice([6, 12, 25, 50])
    if shape == "burst":
        threads = prods + cons + extra          # producers are threads 0..: choice 0 = the first producer's next push
        k = sum(len(p) - 1 for p in prods)
        choices = [0] * k + [rng.randrange(0, 12) for _ in range(n)]
    elif shape == "waiters-first":
        threads = cons + prods + extra          # every consumer starts (and parks) before the first push
        choices = [0] * len(cons) + [rng.randrange(0, 12) for _ in range(n)]
    elif shape == "cancel-races-park":
        threads = cons + prods + extra
        # start the consumers, then cancel some of them (cancels come after starts and resumes in the enabled list)
        choices = [0] * len(cons) + [len(prods) + len(extra) + rng.randrange(0, len(cons)) for _ in range(rng.choice([1, 2]))] \
            + [rng.randrange(0, 12) for _ in range(n)]
    else:
        threads = cons + prods + extra
        rng.shuffle(threads)
        choices = [rng.randrange(0, 12) for _ in range(n)]
    return C.sx(["deque", cfg] + threads + [["choices"] + choices])


def gen_opts(rng):
    u = rng.choice([0, 0, 1])
    c = rng.choice([-2, 0, 0, 1, 3, 5])
    if rng.random() < 0.5:
        q = "nil"
    else:
        q = ["q", rng.choice([-1, 0, 1, 2, 3, 5]), rng.choice([-1, 0, 1, 2, 4, 6]), rng.choice([-1, 0, 0, 1, 3]), rng.choice([1, 2])]
    return C.sx(["dequeopts", u, c, q])


def gen_stress(rng, tier):
    big = tier != "quick"
    k = rng.choice(["force", "force", "drain"])
    n = rng.choice([3000, 8000] if not big else [30000, 80000])
    return C.sx(["dstress", ["kind", k], ["cap", rng.choice([1, 2, 4, 7])], ["n", n], ["spin", rng.choice([2, 3, 4])],
                 ["pushers", rng.choice([2, 3])]])


def features(line, obs):
    if line.startswith("(dstress"):
        return ["dq:stress:" + line.split("(kind ")[1].split(")")[0]]
    if line.startswith("(dqprobe"):
        return ["dq:probe"]
    if line.startswith("(dequeopts"):
        return ["dq:opts:" + ("malformed" if obs == "malformed" else "ok")]
    f = ["dq:cfg:" + cfg_of(line)[1], f"dq:threads:{line.count('(thread')}"]
    for k in list(OPNAME) + ["len", "close"]:
        if f"({k} " in line or f"({k})" in line:
            f.append("dq:op:" + k)
    if obs:
        for k in ("park:nfront", "park:nback", "park:updates", "ret:full", "ret:nocredit", "ret:closed", "ret:ctx", "ret:eof",
                  "ret:none", "TIMEOUT"):
            if k in obs:
                f.append("dq:obs:" + k)
        f.append(f"dq:cancels:{min(obs.count('}c'), 3)}")
        f.append(f"dq:fires:{min(obs.count('}f'), 5)}")
        if "final blocked=[]" not in obs:
            f.append("dq:final:blocked")
        if "@woken" in obs:
            f.append("dq:final:ping-pong")
    return f


def nontrivial(line, obs):
    if line.startswith("(dstress"):
        return obs is not None
    if line.startswith("(dequeopts"):
        return obs is not None
    return obs is not None and "park:" in obs and re.search(r"wake=\[\d", obs) is not None
