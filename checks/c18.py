"""C18 — dt.Set. A case: (set (mk ordered sync) (mk ...) op...), one observation per op.
Besides the differential run, the model is tied to the source by a regenerated tie (T-gen): tools/go2lean
(setops.go) rewrites lean/FunGen/SetOps.lean from $VERIF_REPO/dt/set.go on every run and the theorems of
lean/FunProps/C18Gen.lean (picked up with every other FunProps/C18*.lean module: built, counted, axiom-audited)
say that the model's operations are what the generated functions compute. If dt/set.go leaves the
translator's subset, FunGen/SetOps.lean does not compile and this property (only) reports a broken tie."""
from . import common as C

PROP = "C18"
LEVEL = "proof"
RULE = ("operation sequences over two sets and the value domain {0..5} (+ occasional larger values) forcing collisions, "
        "delete-then-re-add and delete-absent; ordered/unordered x synchronized/not; ops AddCheck, DeleteCheck, Check, Len, "
        "Iterator, MarshalJSON, UnmarshalJSON, Populate, Extend, SortQuick/SortMerge (total comparators), Equal. Unordered "
        "iteration is compared as a sorted sequence. Non-trivial: >=5 ops including a delete or a sort; distinct = distinct "
        "case lines.")
TRUSTED = ["Go map iteration order is unspecified: unordered observations are compared as sorted sequences and Sort* on an "
           "unordered set is only run with total comparators", "the dt.List under an ordered set is modelled at the sequence "
           "level (its pointer-level behaviour is C16)",
           "T-gen (FunGen/SetOps.lean): what dt.Set's callees do — Go map read/store/delete/len/range, dt.List Back().Append/"
           "PushBack/Remove/Sort*/iteration, NewElement, iterator Observe/Next/Close — is fixed by hand in "
           "lean/FunModel/SetPrim.lean; the locking calls of dt.Set are skipped by the translator (C13, setexcl)"]
ASSUMPTIONS = ["Equal(s, s) / Equal of two sets sharing one mutex is not called on synchronized sets (it self-deadlocks: recorded finding)",
               "Extend of an ordered set from an unordered set with more than one member is excluded (order unspecified)"]

KEY_EQ_DEADLOCK = "dt.Set.Equal:synchronized-self"


class RSet:
    def __init__(self, ordered, sync):
        self.xs, self.ordered, self.sync = [], ordered, sync

    def members(self):
        return list(self.xs) if self.ordered else sorted(self.xs)


def ref_step(sets, op):
    k, a = op[0], op[1:]
    if k == "mk":
        sets.append(RSet(a[0] == "1", a[1] == "1")); return f"s{len(sets) - 1}"
    s = sets[int(a[0][1:])]
    if k == "add":
        v = int(a[1])
        if v in s.xs:
            return "1"
        s.xs.append(v); return "0"
    if k == "del":
        v = int(a[1])
        if v in s.xs:
            s.xs.remove(v); return "1"
        return "0"
    if k == "check":
        return "1" if int(a[1]) in s.xs else "0"
    if k == "len":
        return str(len(s.xs))
    if k == "iter":
        return ",".join(map(str, s.members()))
    if k == "json":
        return "[" + ",".join(map(str, s.members())) + "]"
    if k in ("sortq", "sortm"):
        s.xs = sorted(s.xs, reverse=(a[1] == "gt")); s.ordered = True; return "ok"
    if k == "equal":
        o = sets[int(a[1][1:])]
        if s.ordered != o.ordered:
            return None           # the statement does not say what Equal means across kinds
        return "1" if (s.xs == o.xs if s.ordered else sorted(s.xs) == sorted(o.xs)) else "0"
    if k == "extend":
        o = sets[int(a[1][1:])]
        for v in o.members():
            if v not in s.xs:
                s.xs.append(v)
        return "ok"
    if k in ("addall", "unjson"):
        for v in a[1]:
            if int(v) not in s.xs:
                s.xs.append(int(v))
        return "ok"
    raise ValueError(op)


def gen(rng, tier, open_keys):
    n = 1500 if tier == "quick" else 80000
    out = []
    for i in range(n):
        nops = rng.choice([4, 10, 20, 40]) if tier == "quick" else rng.choice([10, 40, 120, 300])
        ops = [["mk", rng.randrange(2), rng.randrange(2)], ["mk", rng.randrange(2), rng.randrange(2)]]
        sets = []
        for o in ops:
            ref_step(sets, [str(x) for x in o])
        dom = 6 if rng.random() < 0.85 else 40
        for _ in range(nops):
            S = rng.randrange(2); T = rng.randrange(2)
            v = rng.randrange(dom)
            k = rng.random()
            if k < 0.30:
                op = ["add", f"s{S}", v]
            elif k < 0.50:
                op = ["del", f"s{S}", v]
            elif k < 0.58:
                op = ["check", f"s{S}", v]
            elif k < 0.64:
                op = ["len", f"s{S}"]
            elif k < 0.74:
                op = [rng.choice(["iter", "json"]), f"s{S}"]
            elif k < 0.80:
                op = [rng.choice(["sortq", "sortm"]), f"s{S}", rng.choice(["lt", "gt"])]
            elif k < 0.88:
                if S == T and sets[S].sync:
                    continue        # self-deadlock (recorded finding)
                op = ["equal", f"s{S}", f"s{T}"]
            elif k < 0.93:
                if S == T or (sets[S].ordered and not sets[T].ordered and len(sets[T].xs) > 1):
                    continue
                op = ["extend", f"s{S}", f"s{T}"]
            else:
                op = [rng.choice(["addall", "unjson"]), f"s{S}", [rng.randrange(dom) for _ in range(rng.randrange(0, 5))]]
            sop = [str(x) if not isinstance(x, list) else [str(y) for y in x] for x in op]
            ref_step(sets, sop)
            ops.append(op)
        out.append(C.sx(["set"] + ops))
    return out


def corpus():
    return ["(setexcl (variant again) (n 5))", "(setexcl (variant withlock) (n 4))", "(setexcl (variant equal) (ordered 0))", "(setexcl (variant equal) (ordered 1))","(set (mk 0 0) (add s0 3) (add s0 1) (sortq s0 lt) (del s0 1) (iter s0) (len s0))",
            "(set (mk 1 0) (mk 1 0) (add s0 1) (add s0 2) (add s1 2) (add s1 1) (equal s0 s1) (sortm s1 lt) (equal s0 s1))",
            "(set (mk 1 1) (add s0 5) (add s0 2) (add s0 5) (del s0 5) (add s0 5) (iter s0) (json s0))"]


def predicate(line, obs, allow_known=False):
    if line.startswith("(setexcl (variant equal)"):
        return None if obs == "excl equal-true=0" else (
            "Equal({1,2}, {1,3}) answered true while a Delete(2) on the receiver was in flight: no sequential order of the "
            "two calls gives that answer (" + str(obs) + ")")
    if line.startswith("(setexcl"):
        return None if obs == "excl overlapped=0" else (
            "operations on a synchronized set overlapped: after a second Synchronize()/a refused WithLock() a Len "
            "completed while a SortQuick was still inside the set (" + str(obs) + ")")
    t = C.parse_sx(line)
    ops = t[1:]
    outs = obs.split(";")
    sets = []
    for i, op in enumerate(ops):
        if i >= len(outs):
            return f"no observation for op {i} {C.sx(op)}"
        o = outs[i]
        if o.startswith("PANIC"):
            return f"op {i} {C.sx(op)} panicked: {o[:100]}"
        want = ref_step(sets, op)
        if want is not None and o != want:
            return f"op {i} {C.sx(op)}: implementation answered `{o}` but a reference set says `{want}`"
    return None


def nontrivial(line, obs):
    if line.startswith("(setexcl"):
        return obs is not None
    t = C.parse_sx(line)
    return len(t) > 6 and any(op[0] in ("del", "sortq", "sortm") for op in t[1:])


def features(line, obs):
    if line.startswith("(setexcl"):
        return ["excl:" + line.split("(variant ")[1].split(")")[0]]
    t = C.parse_sx(line)
    f = []
    for op in t[1:]:
        f.append("op:" + op[0] + (":ordered" + op[1] + "sync" + op[2] if op[0] == "mk" else ""))
    return f


def shrink(line, fails):
    if line.startswith("(setexcl"):
        return line
    t = C.parse_sx(line)
    mk = [op for op in t[1:] if op[0] == "mk"]
    rest = [op for op in t[1:] if op[0] != "mk"]
    rest = C.ddmin(rest, lambda sub: fails(C.sx(["set"] + mk + sub)), max_tests=150)
    return C.sx(["set"] + mk + rest)
