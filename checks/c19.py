"""C19 — HDR histogram. A case: (hist (new min max sig) op...), one observation per op."""
import math
from . import common as C

PROP = "C19"
LEVEL = "proof"
RULE = ("shapes: sigfigs 1..5, min in {1,2,3,7,8,1000,2^k,2^k±1}, max biased to subBucketCount*2^k+{-1,0,1}, powers of ten "
        "and random; value multisets biased to min, max, bucket boundaries, powers of two, heavy duplicates; ops: record, "
        "TotalCount, ValueAtQuantile at ranks 1..total and float quantiles, Min, Max, Export/Import, Merge, Distribution, "
        "Reset; separate probe cases record out-of-range values. Non-trivial: at least 2 distinct recorded values and one "
        "quantile query; distinct = distinct case lines.")
TRUSTED = ["New's two float64 log2 computations are modelled by a 5-row table and Nat.log2 (exact for 1<=min<2^48)",
           "the float expression q/100*total+0.5 of ValueAtQuantile is evaluated in IEEE doubles by the generator and the "
           "resulting rank passed to the model", "int64/int32 arithmetic modelled by naturals under max<2^62"]
ASSUMPTIONS = ["1 <= min <= max < 2^62, min < 2^48, recorded values >= 0"]

HALF = {1: 4, 2: 7, 3: 10, 4: 14, 5: 17}


def gen_shape(rng):
    sig = rng.choice([1, 1, 2, 3, 3, 4, 5])
    sbc = 2 ** (HALF[sig] + 1)
    k = rng.random()
    if k < 0.5:
        mn = rng.choice([1, 1, 1, 2, 3, 7, 8, 1000])
    else:
        e = rng.randrange(0, 20)
        mn = max(1, 2 ** e + rng.choice([-1, 0, 1]))
    u = mn.bit_length() - 1
    k = rng.random()
    if k < 0.45:
        mx = sbc * 2 ** (u + rng.randrange(0, 12)) + rng.choice([-1, 0, 0, 1])
    elif k < 0.6:
        mx = 10 ** rng.randrange(1, 12)
    elif k < 0.7:
        mx = mn + rng.randrange(0, 50)
    else:
        mx = rng.randrange(mn, mn + 10 ** rng.randrange(1, 12))
    return mn, max(mx, mn), sig


def counts_len(mn, mx, sig):
    sbc = 2 ** (HALF[sig] + 1)
    s, n = sbc << (mn.bit_length() - 1), 1
    while s <= mx:
        s <<= 1; n += 1
    return (n + 1) * (sbc // 2)


def gen_value(rng, mn, mx, sig, pool):
    k = rng.random()
    if pool and k < 0.3:
        return rng.choice(pool)
    if k < 0.4:
        return mx
    if k < 0.5:
        return mn
    if k < 0.7:
        e = rng.randrange(0, max(1, mx.bit_length()))
        v = 2 ** e + rng.choice([-1, 0, 1])
    elif k < 0.8:
        sbc = 2 ** (HALF[sig] + 1)
        v = sbc * 2 ** rng.randrange(0, 12) // rng.choice([1, 2]) + rng.choice([-1, 0, 1])
    else:
        v = rng.randrange(mn, mx + 1)
    return min(max(v, mn), mx)


def gen(rng, tier, open_keys):
    n = 400 if tier == "quick" else 20000
    out = []
    for i in range(n):
        mn, mx, sig = gen_shape(rng)
        big = False
        if counts_len(mn, mx, sig) > 40000:
            # the executable model keeps the counts array as a list: large arrays only in a few short cases
            # (its cost grows quadratically: ~1.5 s at 40 000 entries, ~10 s at 100 000, minutes beyond 300 000)
            if i % (25 if tier == "quick" else 100) != 3:
                while counts_len(mn, mx, sig) > 40000:
                    mn, mx, sig = gen_shape(rng)
            else:
                big = True
                while counts_len(mn, mx, sig) > 100000:
                    mn, mx, sig = gen_shape(rng)
        ops, pool, total = [], [], 0
        if i % 10 == 9:      # probe: out-of-range values, no quantiles
            for _ in range(rng.randrange(1, 8)):
                v = rng.choice([0, mn - 1, mx + 1, mx * 2, mx * 2 + 1, mx + rng.randrange(1, mx + 2), rng.randrange(0, mn + 1)])
                ops.append(["rec", max(v, 0), 1])
            ops.append(["total"])
        else:
            nrec = rng.choice([0, 1, 2, 3, 5, 8, 20, 60]) if not big else rng.choice([1, 2, 3])
            for _ in range(nrec):
                v = gen_value(rng, mn, mx, sig, pool)
                cnt = rng.choice([1, 1, 1, 2, 5, 1000]) if i % 7 != 3 else rng.choice([1, 7, 100000, 250000, 999983])
                pool.append(v)
                ops.append(["rec", v, cnt]); total += cnt
                if rng.random() < 0.1:
                    ops.append(["total"])
            ops.append(["total"])
            if total:
                ranks = {1, total, (total + 1) // 2} | {rng.randrange(1, total + 1) for _ in range(0 if big else 6)}
                for r in sorted(ranks):
                    q = r * 100.0 / total
                    rr = int((q / 100) * float(total) + 0.5)
                    ops.append(["q", repr(q), rr])
                fine = []
                if total > 5000:
                    # fine-grained quantiles right at rank boundaries (more than two decimals): the rank is
                    # int64(q/100*total+0.5), evaluated in IEEE doubles exactly as the code does
                    for _ in range(6):
                        r0 = rng.randrange(1, total + 1)
                        fine += [(r0 - 0.4) * 100.0 / total, (r0 + 0.4) * 100.0 / total]
                    fine += [99.976, 99.974, 0.004, 99.999]
                for q in ((50.0, 90.0, 99.0, 99.9, 100.0, 150.0, rng.random() * 100) + tuple(fine) if not big else (99.9,)):
                    qq = min(q, 100.0)
                    ops.append(["q", repr(q), int((qq / 100) * float(total) + 0.5)])
            ops += [["min"], ["max"], ["reimport"], ["merge"]] if not big else [["max"], ["merge"]]
            if rng.random() < 0.5:
                ops += [["snaprec", rng.choice([mn, mx, max(mn, mx // 2)]), rng.choice([1, 3])], ["total"], ["max"]]
            if rng.random() < 0.3:
                ops.append(["dist"])
            if rng.random() < 0.1:
                ops += [["reset"], ["total"], ["rec", mx, 1], ["q", "100.0", 1]]
        out.append(C.sx(["hist", ["new", mn, mx, sig]] + ops))
    return out


def corpus():
    return ["(hist (new 1 2048 3) (rec 2048 1) (rec 17 2) (total) (q 50.0 2) (min) (max) (reimport) (merge) (dist))",
            "(hist (new 1 100 1) (total) (min) (max) (reimport) (merge))"]


def bound_ok(got, exact, mn, sig):
    """exact <= got and got - exact below max(2^floor(log2 min), exact/10^sig)"""
    if got < exact:
        return False
    d = got - exact
    return d < 2 ** (mn.bit_length() - 1) or d * 10 ** sig < exact


def predicate(line, obs, allow_known=False):
    t = C.parse_sx(line)
    mn, mx, sig = int(t[1][1]), int(t[1][2]), int(t[1][3])
    outs = obs.split(";")
    ops = t[2:]
    if len(outs) != len(ops) + 1:
        return "wrong number of observations"
    vals = []   # recorded occurrences (value, count)
    for op, o in zip(ops, outs[1:]):
        if o.startswith("PANIC"):
            return f"{C.sx(op)} panicked: {o[:120]}"
        k = op[0]
        if k == "rec":
            v, c = int(op[1]), int(op[2])
            if mn <= v <= mx and o != "ok":
                return f"recording the in-range value {v} (min={mn}, max={mx}, sigfigs={sig}) failed"
            if o == "ok":
                vals.append((v, c))
        elif k == "snaprec":
            v, c = int(op[1]), int(op[2])
            tot = sum(cc for _, cc in vals)
            head, res = o.split("/")
            t0, t1, mxeq, same = head.split(",")
            if same != "1":
                return (f"the histogram obtained by Import(Export(h)) changed when {v} was recorded into the original "
                        "afterwards (its distribution / Min / Max moved): the copy is not independent")
            if int(t0) != tot or int(t1) != tot:
                return (f"Import(Export(h)) held {t0} occurrences and {t1} after {v} was recorded into the original; "
                        f"the exported state had {tot} (the copy is not independent of the original)")
            if mxeq != "1":
                return "Import(Export(h)).Max() differs from h.Max()"
            if mn <= v <= mx and res != "ok":
                return f"recording the in-range value {v} failed"
            if res == "ok":
                vals.append((v, c))
        elif k == "reset":
            vals = []
        elif k == "total":
            if int(o) != sum(c for _, c in vals):
                return f"TotalCount={o} but {sum(c for _, c in vals)} occurrences were recorded"
        elif k == "q":
            r = int(op[2])
            tot = sum(c for _, c in vals)
            if 1 <= r <= tot and all(mn <= v <= mx for v, _ in vals):
                acc = 0
                for v, c in sorted(vals):
                    acc += c
                    if acc >= r:
                        exact = v
                        break
                if not bound_ok(int(o), exact, mn, sig):
                    return (f"ValueAtQuantile({op[1]}) = {o} but the order statistic of rank {r} is {exact} "
                            f"(min={mn}, sigfigs={sig})")
        elif k in ("min", "max") and vals and all(mn <= v <= mx for v, _ in vals):
            if k == "min":
                lo = min(v for v, _ in vals)
                if not (int(o) <= lo and bound_ok(lo, int(o), mn, sig)):
                    return f"Min()={o} does not bracket the smallest recorded value {lo}"
            else:
                hi = max(v for v, _ in vals)
                if not bound_ok(int(o), hi, mn, sig):
                    return f"Max()={o} does not bracket the largest recorded value {hi}"
        elif k == "reimport":
            if o != "1":
                return "Import(Export(h)) is not Equal to h"
        elif k == "merge" and all(mn <= v <= mx for v, _ in vals):
            if o != "0,1":
                return f"Merge into an empty histogram of the same shape: dropped,equal = {o}"
    return None


def nontrivial(line, obs):
    t = C.parse_sx(line)
    return len({op[1] for op in t[2:] if op[0] == "rec"}) >= 2 and any(op[0] == "q" for op in t[2:])


def features(line, obs):
    t = C.parse_sx(line)
    mn, mx, sig = int(t[1][1]), int(t[1][2]), int(t[1][3])
    f = [f"sig:{sig}", f"unitMag:{min(mn.bit_length() - 1, 20)}", f"nops:{min(len(t) - 2, 100) // 10 * 10}"]
    sbc = 2 ** (HALF[sig] + 1)
    u = mn.bit_length() - 1
    m = mx
    while m % 2 == 0 and m > sbc * 2 ** u:
        m //= 2
    if m == sbc * 2 ** u:
        f.append("max:on-bucket-boundary")
    if any(op[0] == "rec" and int(op[1]) == mx for op in t[2:]):
        f.append("records-max")
    if any(op[0] == "rec" and not (mn <= int(op[1]) <= mx) for op in t[2:]):
        f.append("records-out-of-range")
    if obs and "err" in obs:
        f.append("obs:err")
    return f


def shrink(line, fails):
    t = C.parse_sx(line)
    head, ops = t[:2], t[2:]
    ops = C.ddmin(ops, lambda sub: fails(C.sx(head + sub)), max_tests=150)
    return C.sx(head + ops)


def classify(line, obs, why):
    if "recording the in-range value" in why:
        return "hdr.New:max-on-bucket-boundary"
    return None
