"""Reference oracle and case generator for the broker properties C08 / C09 (pubsub.Broker).

A case:  (broker (backend …) (opts (parallel b) (workers k) (buffer n)) (script step…))
Observation of harness/c08.go:
    (obs (log (kind args… tick)…) (recv (S id tick id tick…)…) (leak N names…) (noquiesce 0|1))

This module evaluates the *property text* on the observation (it does not know the Lean model):
C08: exactly-once window per subscriber, one order for a single dispatch worker, only-published /
no duplicates for every configuration. C09: calls return while every subscriber receives, nothing
accepted stays undispatched at quiescence, clean shutdown, API calls return on their own context."""
from . import common as C

KEY_D24 = "broker:unsubscribe-overtakes-inflight"

BACKENDS = [["chan", 0], ["chan", 2], ["queue", "unl"], ["queue", "lim", 2, 4, 2], ["deque", "unl"], ["deque", "cap", 2],
            ["lifo", 2], ["lifo", 1]]


# ---------------------------------------------------------------------------------------------
# parsing
# ---------------------------------------------------------------------------------------------
class Case:
    def __init__(self, line):
        t = C.parse_sx(line)
        self.backend = next(x for x in t[1:] if x[0] == "backend")[1:]
        opts = next(x for x in t[1:] if x[0] == "opts")
        o = {x[0]: int(x[1]) for x in opts[1:]}
        self.parallel, self.workers, self.buffer = o["parallel"] == 1, max(1, o["workers"]), max(0, o["buffer"])
        self.script = next(x for x in t[1:] if x[0] == "script")[1:]
        b = self.backend
        # Distributor.Send never discards: unbuffered/buffered channel, unlimited Queue/Deque, Deque with a
        # capacity (WaitPushBack blocks)
        self.blocking = b[0] == "chan" or (b[0] == "deque" and b[1] == "cap")
        self.unbounded = b[0] in ("queue", "deque") and b[1] == "unl"
        self.lossless = self.buffer == 0 and (self.blocking or self.unbounded)


class Obs:
    def __init__(self, obs):
        t = C.parse_sx(obs)
        if not isinstance(t, list) or t[0] != "obs":
            raise ValueError("not an observation: " + obs[:80])
        f = {x[0]: x[1:] for x in t[1:]}
        self.events = [(e[0], [int(x) for x in e[1:-1]], int(e[-1])) for e in f["log"]]
        self.recv = {}
        self.order = []
        for r in f["recv"]:
            s = int(r[0])
            self.order.append(s)
            self.recv[s] = [(int(r[i]), int(r[i + 1])) for i in range(1, len(r) - 1, 2)]
        self.leak = int(f["leak"][0])
        self.leak_names = f["leak"][1:]
        self.noquiesce = f["noquiesce"][0] == "1"
        ev = self.events
        self.pc, self.pr, self.px = {}, {}, {}
        self.sc, self.sr, self.uc, self.ur = {}, {}, {}, {}
        self.nil = set()
        for k, a, tk in ev:
            if k in ("pc", "pr", "px"):
                getattr(self, k)[1000 * a[0] + a[1]] = tk
            elif k in ("sc", "sr", "uc", "ur"):
                getattr(self, k).setdefault(a[0], tk)
            elif k == "snil":
                self.nil.add(a[0])
        self.dead = min([tk for k, a, tk in ev if k in ("stopc", "cancelc")] + [10 ** 9])
        self.quiets = [tk for k, a, tk in ev if k == "quiet"]

    def live(self, t):
        return t < self.dead

    def held(self, t):
        h = False
        for k, a, tk in self.events:
            if tk > t:
                break
            if k == "hold":
                h = True
            elif k in ("release", "final"):
                h = False
        return h

    def open_at(self, s, t):
        o = None
        for k, a, tk in self.events:
            if tk > t:
                break
            if k in ("open", "gate") and a[0] == s:
                o = k == "open"
        return o

    def subscribers(self):
        return [s for s in self.sr if s not in self.nil]

    def good_quiet(self, t):
        """at the quiet point t the broker's context is live, no dispatch worker is held by the harness and
        every subscriber that exists is receiving"""
        if not self.live(t) or self.held(t):
            return False
        return all(self.open_at(s, t) for s in self.subscribers() if self.sr[s] < t)

    def established(self, case, s, t):
        """the event loop has certainly processed Subscribe(s) before t"""
        if s not in self.sr or s in self.nil or self.sr[s] >= t:
            return False
        if case.buffer == 0:
            return True
        # buffered subCh: Subscribe returns when the request is queued. Only a quiet point at which the event
        # loop is idle in its select (context live, every subscriber receiving, nothing held) shows that the
        # queue was drained; at a quiet point with a gated subscriber the loop may be blocked in dist.Send with
        # the request still queued, and its next select chooses at random between that request and a Publish.
        return any(self.sr[s] < q < t and self.good_quiet(q) for q in self.quiets)


def parse(line, obs):
    if obs is None:
        return None, None, "no observation (crash or hang of the harness)"
    if not obs.startswith("(obs"):
        return None, None, "harness error: " + obs[:200]
    try:
        return Case(line), Obs(obs), None
    except Exception as e:      # noqa: BLE001
        return None, None, f"unparsable observation ({e}): {obs[:120]}"


# ---------------------------------------------------------------------------------------------
# C08
# ---------------------------------------------------------------------------------------------
def c08_predicate(line, obs, allow_known=False):
    """returns (reason, key) — key names the known shape the failure belongs to (or None)"""
    case, o, err = parse(line, obs)
    if err:
        return err, None
    if o.noquiesce:
        return "the broker did not become quiescent within the deadline (hang or livelock)", None
    # -- every configuration: only published, never twice --------------------------------------
    for s in o.order:
        seen = set()
        for m, tk in o.recv[s]:
            if m in seen:
                return f"subscriber {s} received message {m} twice", None
            seen.add(m)
            if m not in o.pc:
                return f"subscriber {s} received {m}, which no Publish call was made for", None
            if tk < o.pc[m]:
                return f"subscriber {s} received {m} before its Publish call started", None
    # -- single dispatch worker: one order, publisher order preserved --------------------------
    if case.workers == 1:
        for s in o.order:
            last = {}
            for m, _ in o.recv[s]:
                p, q = divmod(m, 1000)
                if p in last and last[p] > q:
                    return (f"single dispatch worker: subscriber {s} saw publisher {p}'s message {q} after its "
                            f"message {last[p]}"), None
                last[p] = q
        succ = {}
        for s in o.order:
            ms = [m for m, _ in o.recv[s]]
            for a, b in zip(ms, ms[1:]):
                succ.setdefault(a, set()).add(b)
        state = {}

        def cyc(n):        # iterative DFS
            stack = [(n, iter(succ.get(n, ())))]
            state[n] = 1
            while stack:
                node, it = stack[-1]
                for nx in it:
                    if state.get(nx) == 1:
                        return (node, nx)
                    if nx not in state:
                        state[nx] = 1
                        stack.append((nx, iter(succ.get(nx, ()))))
                        break
                else:
                    state[node] = 2
                    stack.pop()
            return None
        for n in list(succ):
            if n not in state:
                c = cyc(n)
                if c:
                    return (f"single dispatch worker: the subscribers' sequences fit no common order "
                            f"(…{c[0]} before {c[1]} and {c[1]} before …{c[0]})"), None
    # -- lossless configurations: the exactly-once window --------------------------------------
    if case.lossless:
        for s in o.subscribers():
            got = {m for m, _ in o.recv[s]}
            for m, ret in sorted(o.pr.items()):
                if not (o.sr[s] < o.pc[m]):
                    continue                     # published before Subscribe returned
                if s in o.uc and not (ret < o.uc[s]):
                    continue                     # Publish returned after Unsubscribe was called
                # the subscriber "keeps receiving" and the broker keeps running: a later quiet point
                # with the context live and every subscriber receiving
                qs = [q for q in o.quiets if q > ret and o.good_quiet(q)]
                if not qs:
                    continue
                if m in got:
                    continue
                # Unsubscribe was called while m may still have been on its way?
                overtaken = s in o.uc and not any(q < o.uc[s] for q in qs)
                why = (f"lossless broker: message {m} (Publish returned at t={ret}, after Subscribe of {s} returned at "
                       f"t={o.sr[s]}" + (f" and before its Unsubscribe was called at t={o.uc[s]}" if s in o.uc else "") +
                       f") was never delivered to subscriber {s}, which kept receiving (quiet at t={qs[0]})")
                return why, (KEY_D24 if overtaken else None)
    return None, None


# ---------------------------------------------------------------------------------------------
# C09
# ---------------------------------------------------------------------------------------------
API = {"s": "Subscribe", "u": "Unsubscribe", "p": "Publish", "t": "Stats", "tc": "Stats", "w": "Wait", "stop": "Stop"}


def c09_predicate(line, obs, allow_known=False):
    case, o, err = parse(line, obs)
    if err:
        return err, None
    if o.noquiesce:
        return "the broker did not become quiescent within the deadline (hang or livelock)", None
    everyone_reads = lambda t: all(o.open_at(s, t) for s in o.subscribers() if o.sr[s] < t)  # noqa: E731
    for k, a, tk in o.events:
        if k.endswith("stuck"):
            return f"{API.get(k[:-5], k)} did not return after its own context was cancelled (t={tk})", None
        if k == "stopblocked":
            return f"Stop did not return (t={tk}): it waits for the mutex a concurrent Wait holds", None
        if k == "stopstuck":
            return "Stop never returned", None
        if k == "tcblocked":
            return "Stats with a cancelled context blocked", None
        if k in ("pblocked", "sblocked", "ublocked", "tblocked") and o.live(tk) and not o.held(tk) and everyone_reads(tk):
            return (f"{API[k[0]]} did not return although the broker's context is live and every subscriber keeps "
                    f"receiving (t={tk}): the broker stalled"), None
        if k == "wblocked" and not o.live(tk) and not o.held(tk):
            return f"Wait did not return after Stop / cancellation (t={tk})", None
    # -- at a quiet point with everyone receiving nothing accepted is left undispatched ----------
    subs = o.subscribers()
    for q in o.quiets:
        if not o.good_quiet(q):
            continue
        for m, ret in o.pr.items():
            if ret > q:
                continue
            holders = [s for s in subs if o.established(case, s, o.pc[m]) and (s not in o.uc or o.uc[s] > q)]
            have = [s for s in holders if any(mm == m and tk < q for mm, tk in o.recv[s])]
            if have and len(have) != len(holders):
                miss = [s for s in holders if s not in have]
                return (f"message {m} reached subscriber {have[0]} but at the quiet point t={q} it has not reached "
                        f"subscriber {miss[0]}, which was subscribed before the Publish call and keeps receiving"), None
            if case.lossless and holders and not have:
                return (f"message {m} (Publish returned at t={ret}) is still undelivered at the quiet point t={q} "
                        f"although every subscriber keeps receiving"), None
    evs = o.events
    for i, (k, a, tk) in enumerate(evs):
        if k == "tr" and i >= 2 and evs[i - 2][0] == "quiet" and o.good_quiet(evs[i - 2][2]):
            if a[1] != 0:
                return f"at a quiet point with every subscriber receiving the distributor still holds {a[1]} messages", None
            if case.buffer == 0:
                want = len([s for s in subs if o.sr[s] < tk and not (s in o.ur and o.ur[s] < tk)])
                lo = len([s for s in subs if o.sr[s] < tk and not (s in o.uc and o.uc[s] < tk)])
                if not (lo <= a[0] <= want):
                    return f"Stats reports {a[0]} subscriptions at a quiet point, the calls that returned leave {want}", None
    if o.leak:
        return (f"{o.leak} broker goroutine(s) still exist after Stop, cancellation and Wait "
                f"({' '.join(o.leak_names[:3])})"), None
    return None, None


# ---------------------------------------------------------------------------------------------
# generator
# ---------------------------------------------------------------------------------------------
def mk(backend, parallel, workers, buffer, script):
    return C.sx(["broker", ["backend"] + list(backend), ["opts", ["parallel", int(parallel)], ["workers", workers],
                                                          ["buffer", buffer]], ["script"] + script])


def settle(subs, pubs=()):
    """everything published so far reaches every subscriber before the next step"""
    return [["join", p] for p in pubs] + [["open", s] for s in subs] + [["quiesce"]]


def scenario(rng, kind, backend, risky, buf=0):
    """one scripted scenario; `risky` allows Unsubscribe while messages may be in flight (D24's shape);
    `buf` is the BufferSize the scenario will run with"""
    unbounded = backend[0] in ("queue", "deque") and backend[1] == "unl"
    ns = rng.choice([1, 2, 2, 3])
    npub = rng.choice([1, 1, 2, 3])
    subs = list(range(ns))
    sc = []
    if kind == "steady":
        sc += [["sub", s, "open"] for s in subs]
        for _ in range(rng.choice([1, 2, 4])):
            sc.append(["pub", rng.randrange(npub), rng.choice([1, 2, 5])])
        sc.append(["quiesce"])
    elif kind == "burst":
        # several publishes complete before any subscriber reads
        sc += [["sub", s, "gated"] for s in subs]
        n = rng.choice([2, 5, 9, 20])
        if unbounded:
            sc.append(["pub", 0, n])
            sc.append(["quiesce"])
            sc += [["open", s] for s in subs]
        else:
            sc.append(["pubasync", 0, n])
            sc.append(["quiesce"])
            sc += [["open", s] for s in subs]
            sc.append(["join", 0])
        sc.append(["quiesce"])
    elif kind == "concurrent":
        sc += [["sub", s, rng.choice(["open", "open", "gated"])] for s in subs]
        ps = list(range(npub + 1))
        sc += [["pubasync", p, rng.choice([1, 3, 6])] for p in ps]
        if rng.random() < 0.5:
            sc.append(["quiesce"])
        sc += [["open", s] for s in subs]
        sc += [["join", p] for p in ps]
        sc.append(["quiesce"])
    elif kind == "churn":
        # subscribers come and go between publishes
        live, nxt = [], 0
        for _ in range(rng.choice([3, 5, 8])):
            r = rng.random()
            if r < 0.35 or not live:
                sc.append(["sub", nxt, "open"]); live.append(nxt); nxt += 1
            elif r < 0.55:
                s = rng.choice(live)
                if not risky:
                    sc += settle(live)
                sc.append(["unsub", s]); live.remove(s)
            else:
                sc.append(["pub", rng.randrange(npub), rng.choice([1, 2, 3])])
        sc.append(["quiesce"])
    elif kind == "unsub-twice":
        # the same channel is unsubscribed twice while another subscriber keeps receiving
        ns = max(ns, 2)
        subs = list(range(ns))
        sc += [["sub", s, "open"] for s in subs]
        sc.append(["pub", 0, rng.choice([1, 2])])
        sc += settle(subs)
        gone = rng.randrange(ns)
        sc.append(["unsub", gone])
        if rng.random() < 0.5:
            sc += [["pub", 0, 1], ["quiesce"]]
        sc.append(["unsub", gone])
        sc += [["pub", 0, rng.choice([1, 3])], ["quiesce"], ["stats"]]
        if rng.random() < 0.4:
            sc += [["sub", ns, "open"], ["pub", 1, 2], ["quiesce"]]
    elif kind == "unsub-parked":
        # >= 3 subscribers; a dispatch is parked on a gated later subscriber when the Unsubscribe of an earlier
        # one is processed: afterwards nobody who stayed is skipped and nobody gets a message twice. (What the
        # leaving subscriber itself still gets of the parked message is D24's question and classified as such.)
        ns = rng.choice([3, 3, 4])
        subs = list(range(ns))
        slow = rng.randrange(1, ns)
        sc += [["sub", s, "gated" if s == slow else "open"] for s in subs]
        sc += [["pubasync", 0, buf + rng.choice([1, 2])], ["quiesce"]]
        gone = rng.randrange(slow)
        sc.append(["unsub", gone])
        if rng.random() < 0.3:
            sc.append(["unsub", gone])
        if rng.random() < 0.5:
            sc.append(["quiesce"])
        sc += [["open", slow], ["join", 0], ["quiesce"], ["pub", 1, rng.choice([1, 3])], ["quiesce"], ["stats"]]
    elif kind == "hold":
        # the dispatch workers are parked after Receive; released together
        sc += [["sub", s, "open"] for s in subs]
        sc.append(["hold"])
        n = rng.choice([1, 2, 3]) if unbounded else 1
        sc.append(["pub", 0, n])
        sc.append(["quiesce"])
        if rng.random() < 0.5:
            sc.append(["sub", ns, "open"])        # arrives while a message is held: may or may not get it
        sc.append(["release"])
        sc.append(["quiesce"])
        sc.append(["pub", 0, 2])
        sc.append(["quiesce"])
    elif kind in ("stop-idle", "stop-dispatch", "stop-publish", "stop-backlog"):
        how = rng.choice([["stop"], ["cancel"]])
        if kind == "stop-idle":
            sc += [["sub", s, "open"] for s in subs] + [["pub", 0, rng.choice([0, 1, 3])], ["quiesce"], how, ["wait"]]
        elif kind == "stop-dispatch":
            sc += [["sub", s, "gated"] for s in subs] + [["pub", 0, 1], ["quiesce"], how, ["wait"]]
        elif kind == "stop-publish":
            sc += [["sub", s, "gated"] for s in subs] + [["pubasync", 0, 6], ["pubasync", 1, 2], ["quiesce"], how,
                                                          ["wait"], ["join", 0], ["join", 1]]
        else:
            sc += [["sub", s, "gated"] for s in subs] + [["pubasync", 0, 12], ["quiesce"], how, ["wait"], ["join", 0]]
        # API calls on a stopped broker block until their own context ends
        tail = [["sub", 7, "open"], ["pub", 2, 1], ["stats"], ["unsub", 0], ["wait"]]
        rng.shuffle(tail)
        sc += tail[:rng.choice([0, 2, 5])]
    elif kind == "api":
        sc += [["sub", s, "open"] for s in subs]
        sc.append(["pub", 0, 1])
        sc += rng.choice([[["statscancel"]] * 4, [["statsrace"]], [["stats"]], [["statsrace"], ["statscancel"]]])
        sc += [["pub", 0, 2], ["stats"], ["quiesce"]]
    elif kind == "wait-stop":
        sc += [["sub", s, "open"] for s in subs]
        sc += [["waitasync"], ["quiesce"], rng.choice([["stop"], ["cancel"]]), ["joinwait"]]
    elif kind == "random":
        live, nxt, pend = [], 0, set()
        for _ in range(rng.choice([6, 10, 16])):
            r = rng.random()
            if r < 0.2 or not live:
                sc.append(["sub", nxt, rng.choice(["open", "open", "gated"])]); live.append(nxt); nxt += 1
            elif r < 0.3:
                s = rng.choice(live)
                if not risky:
                    sc += settle(live, sorted(pend)); pend.clear()
                sc.append(["unsub", s]); live.remove(s)
            elif r < 0.55:
                p = rng.randrange(3)
                if p in pend:
                    sc.append(["join", p]); pend.discard(p)
                else:
                    sc.append(["pub", p, rng.choice([1, 2, 4])])
            elif r < 0.7:
                p = rng.randrange(3)
                if p not in pend:
                    sc.append(["pubasync", p, rng.choice([1, 3, 5])]); pend.add(p)
            elif r < 0.85:
                s = rng.choice(live)
                sc.append([rng.choice(["open", "gate"]), s])
            elif r < 0.93:
                sc.append(["quiesce"])
            else:
                sc.append(["stats"])
        sc += [["open", s] for s in live] + [["join", p] for p in sorted(pend)] + [["quiesce"]]
    else:
        raise ValueError(kind)
    return sc


C08_KINDS = ["steady", "burst", "concurrent", "churn", "churn", "hold", "random", "random", "unsub-twice",
             "unsub-parked"]
C09_KINDS = ["steady", "burst", "burst", "concurrent", "stop-idle", "stop-dispatch", "stop-publish", "stop-backlog", "api",
             "wait-stop", "random", "unsub-twice"]


def gen(rng, tier, kinds, risky):
    reps = 6 if tier == "quick" else 300
    out = []
    for backend in BACKENDS:
        for kind in kinds:
            for _ in range(reps):
                par = rng.random() < 0.4
                workers = rng.choice([1, 1, 2, 3])
                buf = rng.choice([0, 0, 0, 1, 2])
                out.append(mk(backend, par, workers, buf, scenario(rng, kind, backend, risky, buf)))
    return out


def features(line, obs):
    t = C.parse_sx(line)
    be = next(x for x in t[1:] if x[0] == "backend")
    f = ["backend:" + "-".join(map(str, be[1:3]))]
    o = {x[0]: x[1] for x in next(x for x in t[1:] if x[0] == "opts")[1:]}
    f += [f"workers:{o['workers']}", f"parallel:{o['parallel']}", f"buffer:{o['buffer']}"]
    for st in {s[0] for s in next(x for x in t[1:] if x[0] == "script")[1:]}:
        f.append("step:" + st)
    if obs:
        for k in ("pblocked", "sblocked", "ublocked", "tblocked", "wblocked", "stopblocked", "px", "wx"):
            if "(" + k + " " in obs or "(" + k + ")" in obs:
                f.append("obs:" + k)
    return f


def nontrivial(line, obs):
    return obs is not None and "(recv" in obs and any(len(r) > 2 for r in C.parse_sx(obs)[2][1:])


def shrink(line, fails):
    t = C.parse_sx(line)
    idx = next(i for i, x in enumerate(t) if isinstance(x, list) and x[0] == "script")
    steps = t[idx][1:]

    def build(sub):
        t2 = list(t)
        t2[idx] = ["script"] + sub
        return C.sx(t2)
    try:
        steps = C.ddmin(steps, lambda sub: fails(build(sub)), max_tests=60)
    except Exception:      # noqa: BLE001
        pass
    return build(steps)


def judged_main(mod, tier, seed, replay):
    """T-out: the Lean driver judges the implementation's observation. The case handed to the driver is
    `(judge <case> <observation>)`; an `ok` verdict is mapped back to the observation, so that the generic
    runner's equality test means "accepted by the model's outcome predicate"."""
    from . import diffcheck
    orig = C.run_lines
    last = {"lines": None, "obs": None}

    def run_lines(binary, args, lines, timeout=600, env=None):
        if binary != C.driver_bin():
            res = orig(binary, args, lines, timeout=timeout, env=env)
            last["lines"], last["obs"] = list(lines), list(res[0])
            return res
        obs = last["obs"] if last["lines"] == list(lines) else [None] * len(lines)
        drift = drift_status()
        if drift:
            # the model no longer describes the code: every verdict is void (reported as a broken tie)
            return ["BROKEN-TIE " + drift] * len(lines), 0, ""
        lines2 = [f"(judge {l} {o})" if (o is not None and o.startswith("(obs")) else "(nojudge)" for l, o in zip(lines, obs)]
        out, rc, err = orig(binary, args, lines2, timeout=timeout, env=env)
        out = [o if (m == "ok" or l2 == "(nojudge)") else m for o, l2, m in zip(obs, lines2, out)]
        return out, rc, err
    C.run_lines = run_lines
    try:
        rc = diffcheck.run(mod, tier, seed, replay)
    finally:
        C.run_lines = orig
    if tier == "thorough" and not replay and os.environ.get("VERIF_NO_RACE") != "1":
        rc = max(rc, race_stage(mod, seed))
    return rc


def race_stage(mod, seed):
    """thorough tier: a sample of the scenarios on a `go build -race` harness; a data race reported by the
    detector in broker code is a violation (the observation oracles ran in the main stage)"""
    import random, subprocess
    ok, out, hbin = C.build_harness(race=True)
    if not ok:
        print("note: the -race harness does not build: " + out[-300:])
        return 0
    rng = random.Random(seed * 7919 + 11)
    cases = list(getattr(mod, "corpus", lambda: [])()) + mod.gen(rng, "quick", {KEY_D24})
    env = dict(os.environ, VERIF_CASE_TIMEOUT_MS="60000", VERIF_SCHED_TIMEOUT_MS="30000")
    p = subprocess.run([hbin, mod.PROP], input="\n".join(cases) + "\n", stdout=subprocess.PIPE, stderr=subprocess.PIPE,
                       text=True, timeout=3000, env=env)
    reports = [r for r in p.stderr.split("==================") if "WARNING: DATA RACE" in r]
    # D8 (property C13, its own fix): Queue.Distributor wires `size: q.tracker.len`, an unlocked read of the
    # tracker that Broker.Stats reaches through Distributor.Len — not a broker defect, not judged here
    d8_unrepaired = "q.tracker.len" in open(os.path.join(C.REPO, "pubsub", "queue.go")).read()
    d8 = [r for r in reports if d8_unrepaired and "TrackerImpl).len()" in r and "Distributor" in r and ".Len()" in r]
    other = [r for r in reports if r not in d8]
    n = len(other)
    print(f"{mod.PROP}: -race stage: {len(cases)} scenarios, {n} data race report(s)"
          + (f" (+{len(d8)} of D8 / C13: Queue.Distributor's unlocked tracker.len, seen through Broker.Stats)" if d8 else ""))
    if n:
        path = C.write_replay(mod.PROP, f"race-{seed}.txt",
                              f"# property {mod.PROP}: data race reported by the -race build\n" +
                              "\n".join("# " + l for l in other[0].splitlines()[:60]) + "\n" + "\n".join(cases[:50]) + "\n")
        print(f"VIOLATION property={mod.PROP} replay={path} the Go race detector reports {n} data race(s) in broker scenarios")
        return 1
    return 0


# ---------------------------------------------------------------------------------------------
# drift guard: the hand-written model is valid for the text it was written against
# ---------------------------------------------------------------------------------------------
import hashlib, json, os, re   # noqa: E402

DRIFT_FILE = os.path.join(C.LEAN, "FunModel", "Broker.drift.json")
MODELLED = {
    "pubsub/broker.go": ["NewBroker", "MakeDistributorBroker", "NewQueueBroker", "NewDequeBroker", "NewLIFOBroker",
                         "makeBroker", "startQueueWorkers", "dispatchMessage", "Stats", "sendMsg", "Stop", "Wait",
                         "Subscribe", "Unsubscribe", "Publish"],
    "pubsub/buffer.go": ["MakeDistributor", "Len", "Send", "Receive", "DistributorChannel", "DistributorChanOp"],
    "pubsub/queue.go": ["Distributor"],
    "pubsub/deque.go": ["Distributor", "DistributorNonBlocking"],
    "adt/map.go": ["Keys", "makeMapIterator", "Ensure", "Delete"],
}


def go_functions(text):
    """name -> normalised source of every top-level func (comments, blank space and verif hook lines removed)"""
    text = re.sub(r"/\*.*?\*/", "", text, flags=re.S)
    text = "\n".join(l for l in (re.sub(r"//.*", "", l) for l in text.splitlines())
                     if not re.match(r"\s*(defer )?verif(At|Sig)\(", l))
    out = {}
    for m in re.finditer(r"^func (\([^)]*\) )?(\w+)", text, flags=re.M):
        i = text.find("{", m.end())
        # skip the braces of type parameters / interface literals in the signature: the body starts at the
        # first '{' that follows the closing ')' of the parameter list at depth 0
        depth, j = 0, m.end()
        while j < len(text):
            ch = text[j]
            if ch in "([":
                depth += 1
            elif ch in ")]":
                depth -= 1
            elif ch == "{" and depth == 0:
                break
            j += 1
        i, depth, k = j, 0, j
        while k < len(text):
            ch = text[k]
            if ch == '"':
                k = text.find('"', k + 1)
            elif ch == "`":
                k = text.find("`", k + 1)
            elif ch == "{":
                depth += 1
            elif ch == "}":
                depth -= 1
                if depth == 0:
                    break
            k += 1
        out[m.group(2)] = re.sub(r"\s+", " ", text[m.start():k + 1]).strip()
    return out


def drift_hashes(repo=None):
    repo = repo or C.REPO
    res = {}
    for f, names in MODELLED.items():
        fns = go_functions(open(os.path.join(repo, f)).read())
        res[f] = {n: (hashlib.sha256(fns[n].encode()).hexdigest()[:16] if n in fns else "missing") for n in names}
    return res


def drift_status():
    """'' when the modelled functions still have the text the model was written against"""
    try:
        want = json.load(open(DRIFT_FILE))
    except Exception as e:      # noqa: BLE001
        return f"cannot read {DRIFT_FILE}: {e}"
    have = drift_hashes()
    bad = [f"{f}:{n}" for f in want for n in want[f] if have.get(f, {}).get(n) != want[f][n]]
    return ("modelled functions changed since FunModel/Broker.lean was written: " + ", ".join(bad)) if bad else ""


if __name__ == "__main__":
    import sys
    if sys.argv[1:] == ["--update-drift"]:
        json.dump(drift_hashes(), open(DRIFT_FILE, "w"), indent=1, sort_keys=True)
        print("wrote", DRIFT_FILE)
    else:
        print(drift_status() or "drift guard ok")
