"""Shared machinery of ./check: build the Lean project and the Go harness from /repo's working
tree, audit the proofs, run the model/implementation correspondence, shrink, write evidence."""
import fcntl, hashlib, json, os, random, re, subprocess, sys, time

VERIF = os.path.dirname(os.path.dirname(os.path.abspath(__file__)))
REPO = os.environ.get("VERIF_REPO", "/repo")
LEAN = os.path.join(VERIF, "lean")
HARNESS = os.path.join(VERIF, "harness")
WORK = os.path.join(VERIF, ".work")
BIN = os.path.join(WORK, "bin")
ALLOWED_AXIOMS = {"propext", "Classical.choice", "Quot.sound"}
FORBIDDEN = re.compile(r"sorry|admit|^\s*axiom |native_decide|bv_decide|implemented_by|unsafe |maxHeartbeats 0")

GOENV = dict(os.environ, GOFLAGS="-mod=mod", GOPROXY="off", GOSUMDB="off", GOTOOLCHAIN="local",
             CGO_ENABLED=os.environ.get("CGO_ENABLED", "0"))

TRUSTED_BASE = [
    "Lean 4.33 kernel (lake build; leanchecker in the thorough tier)",
    "axioms allowed: propext, Classical.choice, Quot.sound (audited per theorem with #print axioms)",
    "the hand-written Lean model of the Go code (FunModel/*) is tied to /repo only by the "
    "correspondence run of this check (same inputs to model and implementation, outputs diffed)",
    "the Go harness, the Python generators/oracles and the Lean driver's parsing",
]


class Lock:
    def __init__(self, name):
        os.makedirs(WORK, exist_ok=True)
        self.path = os.path.join(WORK, name + ".lock")
    def __enter__(self):
        self.f = open(self.path, "w")
        fcntl.flock(self.f, fcntl.LOCK_EX)
    def __exit__(self, *a):
        fcntl.flock(self.f, fcntl.LOCK_UN)
        self.f.close()


def sh(cmd, cwd=None, env=None, timeout=None, input=None):
    p = subprocess.run(cmd, cwd=cwd, env=env, timeout=timeout, input=input,
                       stdout=subprocess.PIPE, stderr=subprocess.STDOUT, text=True)
    return p.returncode, p.stdout


# ---------------------------------------------------------------------------------------------
# Lean side
# ---------------------------------------------------------------------------------------------
def strip_comments(text):
    text = re.sub(r"/-.*?-/", "", text, flags=re.S)
    return re.sub(r"--.*", "", text)


def lean_sources():
    out = []
    for root, _, files in os.walk(LEAN):
        if ".lake" in root:
            continue
        for f in files:
            if f.endswith(".lean"):
                out.append(os.path.join(root, f))
    return sorted(out)


def grep_forbidden():
    hits = []
    for p in lean_sources():
        for i, line in enumerate(strip_comments(open(p).read()).splitlines(), 1):
            if FORBIDDEN.search(line):
                hits.append(f"{os.path.relpath(p, LEAN)}:{i}: {line.strip()}")
    return hits


def regenerate():
    """T-gen: rewrite lean/FunGen from /repo's working tree (only when content changes)."""
    gen = os.path.join(VERIF, "tools", "go2lean")
    if not os.path.isdir(gen):
        return True, ""
    with Lock("gen"):
        for attempt in range(3):
            rc, out = sh(["go", "run", ".", "-repo", REPO, "-out", os.path.join(LEAN, "FunGen")], cwd=gen, env=GOENV,
                         timeout=300)
            if rc == 0:
                break
            time.sleep(2)      # a Go toolchain hiccup (e.g. the shared build cache being trimmed): try again
    return rc == 0, out


def lake_build(targets):
    with Lock("lake"):
        rc, out = sh(["lake", "build"] + targets, cwd=LEAN, timeout=3000)
    return rc == 0, out


def prop_modules(prop):
    """FunProps/<prop>.lean plus any FunProps/<prop><Suffix>.lean (e.g. C16Stack)"""
    import glob
    files = sorted(glob.glob(os.path.join(LEAN, "FunProps", prop + "*.lean")))
    return [os.path.basename(f)[:-5] for f in files]


def theorem_names(prop):
    """property theorems = every `theorem` in FunProps/<prop>*.lean, qualified by its namespace"""
    names = []
    for mod in prop_modules(prop):
        path = os.path.join(LEAN, "FunProps", mod + ".lean")
        text = strip_comments(open(path).read())
        ns = []
        for line in text.splitlines():
            m = re.match(r"\s*namespace\s+(\S+)", line)
            if m:
                ns.append(m.group(1)); continue
            m = re.match(r"\s*end\s+(\S+)", line)
            if m and ns and ns[-1] == m.group(1):
                ns.pop(); continue
            m = re.match(r"\s*(?:private\s+|protected\s+)?theorem\s+(\S+)", line)
            if m:
                names.append(".".join(ns + [m.group(1)]))
    return names


def audit_axioms(prop, names):
    """#print axioms for each property theorem; returns {name: [axioms]} and the list of bad ones"""
    os.makedirs(os.path.join(WORK, prop), exist_ok=True)
    f = os.path.join(WORK, prop, "Audit.lean")
    with open(f, "w") as fh:
        for mod in prop_modules(prop):
            fh.write(f"import FunProps.{mod}\n")
        for n in names:
            fh.write(f"#print axioms {n}\n")
    with Lock("lake"):
        rc, out = sh(["lake", "env", "lean", f], cwd=LEAN, timeout=1200)
    res, cur = {}, None
    for m in re.finditer(r"'([^']+)' (does not depend on any axioms|depends on axioms: \[([^\]]*)\])", out, flags=re.S):
        axs = [a.strip() for a in (m.group(3) or "").replace("\n", " ").split(",") if a.strip()]
        res[m.group(1)] = axs
    bad = []
    for n in names:
        if n not in res:
            bad.append((n, ["<not reported>"]))
        elif not set(res[n]) <= ALLOWED_AXIOMS:
            bad.append((n, res[n]))
    return res, bad, (rc, out)


def leanchecker(prop):
    with Lock("lake"):
        rc, out = sh(["lake", "env", "leanchecker"] + [f"FunProps.{m}" for m in prop_modules(prop)], cwd=LEAN, timeout=3000)
    return rc == 0, out


# ---------------------------------------------------------------------------------------------
# Go side
# ---------------------------------------------------------------------------------------------
def build_harness(race=False):
    os.makedirs(BIN, exist_ok=True)
    name = "harness-race" if race else "harness"
    if REPO != "/repo":
        name += "-" + hashlib.md5(REPO.encode()).hexdigest()[:8]   # never clobber the binary built against /repo
    out_bin = os.path.join(BIN, name)
    env = dict(GOENV)
    cmd = ["go", "build", "-tags", "verif", "-o", out_bin]
    if race:
        env["CGO_ENABLED"] = "1"
        cmd.insert(2, "-race")
    with Lock("go"):
        # go.mod replaces the module with REPO; keep go.sum in step with the repository's
        src = os.path.join(REPO, "go.sum")
        if os.path.exists(src):
            open(os.path.join(HARNESS, "go.sum"), "w").write(open(src).read())
        if REPO != "/repo":
            gm = open(os.path.join(HARNESS, "go.mod")).read()
            gm2 = re.sub(r"=> \S+", "=> " + REPO, gm)
            moddir = os.path.join(WORK, "harness-alt")
            sh(["rm", "-rf", moddir]); sh(["cp", "-r", HARNESS, moddir])
            open(os.path.join(moddir, "go.mod"), "w").write(gm2)
            bdir = moddir
        else:
            bdir = HARNESS
        for attempt in range(3):
            rc, out = sh(cmd + ["."], cwd=bdir, env=env, timeout=1200)
            if rc == 0 or "could not import" not in out and "no such file or directory" not in out:
                break
            time.sleep(2)      # the shared Go build cache was trimmed under the build: try again
    return rc == 0, out, out_bin


def run_lines(binary, args, lines, timeout=600, env=None):
    """feed lines, get one output line per input line. A process that dies or hangs on a case
    (the harness prints HANG and exits, or the timeout expires) yields None for that case and is
    restarted on the remaining cases."""
    res, pos, err_all, rc = [], 0, "", 0
    restarts = 0
    while pos < len(lines):
        data = "\n".join(lines[pos:]) + "\n"
        try:
            p = subprocess.run([binary] + args, input=data, stdout=subprocess.PIPE, stderr=subprocess.PIPE,
                               text=True, timeout=timeout, env=env)
            out, rc = p.stdout.splitlines(), p.returncode
            err_all += p.stderr[-2000:]
        except subprocess.TimeoutExpired as e:
            raw = e.stdout or b""
            txt = raw.decode(errors="replace") if isinstance(raw, bytes) else raw
            out = txt.splitlines()
            if txt and not txt.endswith("\n") and out:
                out = out[:-1]       # a line cut off in the middle is not an answer
            err_all += "TIMEOUT"
            rc = -9
            if out:
                # the batch as a whole ran out of time while it was making progress: the case in flight is
                # not to blame, it is run again as the first case of the next batch (only a case that uses
                # up the whole time on its own counts as "no output")
                res += out[:len(lines) - pos]
                pos = len(res)
                continue
        if out and out[-1] == "HANG":
            out[-1] = None
        res += out[:len(lines) - pos]
        pos = len(res)
        if pos < len(lines):
            # died without reporting on lines[pos]
            res.append(None); pos += 1
            restarts += 1
            if restarts > 50:
                res += [None] * (len(lines) - pos)
                break
    return res[:len(lines)], rc, err_all


def driver_bin():
    return os.path.join(LEAN, ".lake", "build", "bin", "driver")


# ---------------------------------------------------------------------------------------------
# S-expression helpers for generators / shrinkers
# ---------------------------------------------------------------------------------------------
def sx(x):
    if isinstance(x, (list, tuple)):
        return "(" + " ".join(sx(y) for y in x) + ")"
    return str(x)


def parse_sx(s):
    toks = re.findall(r"\(|\)|[^\s()]+", s)
    stack, top = [], []
    for t in toks:
        if t == "(":
            stack.append(top); top = []
        elif t == ")":
            l = top; top = stack.pop(); top.append(l)
        else:
            top.append(t)
    return top[0]


# ---------------------------------------------------------------------------------------------
# findings, evidence, reporting
# ---------------------------------------------------------------------------------------------
def known_findings(prop):
    path = os.path.join(VERIF, "known-findings.jsonl")
    out = []
    if os.path.exists(path):
        for line in open(path):
            line = line.strip()
            if line:
                d = json.loads(line)
                if d.get("property") == prop:
                    out.append(d)
    return out


def write_replay(prop, name, content):
    d = os.path.join(VERIF, "replays", prop)
    os.makedirs(d, exist_ok=True)
    p = os.path.join(d, name)
    with open(p, "w") as fh:
        fh.write(content)
    return p


def evidence_dir():
    evdir = os.path.join(VERIF, "evidence")
    if REPO != "/repo":
        # runs against another tree (seeded changes, scratch worktrees) never touch the committed evidence
        evdir = os.path.join(WORK, "evidence-" + hashlib.md5(REPO.encode()).hexdigest()[:8])
    os.makedirs(evdir, exist_ok=True)
    return evdir


def write_evidence(prop, tier, seed, level, coverage, assumptions, wall, violations):
    evdir = evidence_dir()
    ev = {"property_id": prop, "tier": tier, "seed": seed, "level": level, "coverage": coverage,
          "assumptions": assumptions, "wall_s": round(wall, 2), "violations": violations}
    with open(os.path.join(evdir, prop + ".json"), "w") as fh:
        json.dump(ev, fh, indent=1, sort_keys=True)
        fh.write("\n")


class Report:
    """collects what a run found; prints VIOLATION / KNOWN-FINDING lines at the end"""
    def __init__(self, prop):
        self.prop = prop
        self.violations = []   # (replay_path, text, found_input)
        self.known = []
        self.notes = []
    def violation(self, replay, text, found=True):
        self.violations.append((replay, text, found))
    def known_finding(self, text):
        self.known.append(text)
    def note(self, text):
        self.notes.append(text); print("note:", text, flush=True)
    def finish(self):
        for k in self.known:
            print(f"KNOWN-FINDING: property={self.prop} {k}")
        for replay, text, found in self.violations:
            suffix = "" if found else " no-failing-input-found"
            print(f"VIOLATION property={self.prop} replay={replay} {text}{suffix}".replace("\n", " "))
        return 1 if self.violations else 0


def ddmin(items, fails, max_tests=400):
    """classic delta debugging on a list; `fails(sub)` is True when the failure persists"""
    n, tests = 2, 0
    while len(items) >= 2 and tests < max_tests:
        chunk = max(1, len(items) // n)
        subsets = [items[i:i + chunk] for i in range(0, len(items), chunk)]
        reduced = False
        for i in range(len(subsets)):
            comp = [x for j, s in enumerate(subsets) if j != i for x in s]
            tests += 1
            if comp and fails(comp):
                items, n, reduced = comp, max(n - 1, 2), True
                break
        if not reduced:
            if n >= len(items):
                break
            n = min(len(items), n * 2)
    return items
