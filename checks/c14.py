"""C14 — fun.WaitGroup under deterministic schedules (T-sched). A case:
(wg (thread op...)... (choices n...)); harness and Lean model print one observation per action."""
import random
from . import common as C
from . import schedlog as SL

PROP = "C14"
LEVEL = "proof"
RULE = ("2-5 logical threads with programs over Add(n)/Done/Wait/Num/IsDone (several rounds of reuse, adds that would go "
        "negative), schedules chosen by a seeded choice list among the enabled atomic segments {start, resume-after-wake, "
        "cancel, helper-fire}; every schedule is replayed action by action on the Lean model and both the observations and "
        "the enabled sets must agree. Non-trivial: at least one Wait parked and was later woken or cancelled; distinct = "
        "distinct case lines.")
TRUSTED = ["sync.Mutex / sync.Cond / context modelled (FIFO wake-up order of sync.Cond as implemented by the Go runtime)",
           "the verif hooks in sync.go mark the segment boundaries (MANIFEST.hooks)",
           "T-gen (FunGen/SegsWaitGroup.lean, rewritten from $VERIF_REPO/sync.go on every run; FunProps/C14Gen.lean proves the "
           "model's start/resume equal to it): the shape recogniser tools/go2lean/segs.go and its tables (field counter, "
           "method -> Op constructor, result -> observation string; wg.init() and the hooks skipped; int = Int)"]
ASSUMPTIONS = ["segments are atomic (they run under wg.mu)"]
HARNESS_ENV = {}


def gen_program(rng, role):
    if role == "waiter":
        return [["wait"]] * rng.choice([1, 1, 2]) + ([["num"]] if rng.random() < 0.3 else [])
    ops = []
    for _ in range(rng.choice([1, 2, 3])):          # rounds
        n = rng.choice([1, 1, 2, 3])
        ops.append(["add", n])
        ops += [["done"]] * n
        if rng.random() < 0.15:
            ops.append(["add", -rng.choice([1, 2])])  # would go negative: must panic and change nothing
        if rng.random() < 0.2:
            ops.append([rng.choice(["num", "isdone"])])
    return ops


def gen(rng, tier, open_keys):
    n = 3000 if tier == "quick" else 40000
    out = []
    for _ in range(n):
        nthreads = rng.choice([2, 3, 3, 4, 5])
        progs = []
        for i in range(nthreads):
            progs.append(["thread"] + gen_program(rng, "worker" if i == 0 or rng.random() < 0.35 else "waiter"))
        choices = [rng.randrange(0, 12) for _ in range(rng.choice([5, 15, 30, 60]))]
        out.append(C.sx(["wg"] + progs + [["choices"] + choices]))
    for _ in range(40 if tier == "quick" else 400):
        out.append(C.sx(["wgacct", ["via", rng.choice(["launch", "dotimes", "opadd", "startgroup"])],
                         ["ctx", rng.choice(["live", "live", "dead"])],
                         ["kinds"] + [rng.choice(["ret", "ret", "goexit"]) for _ in range(rng.choice([1, 2, 3, 5, 8]))]]))
    for _ in range(3 if tier == "quick" else 12):
        out.append(C.sx(["wgstress", ["rounds", 150000 if tier == "quick" else 600000], ["waiters", rng.choice([1, 2, 3])]]))
    return out


def corpus():
    return ["(wgprobe)","(wg (thread (add 2) (done) (done)) (thread (wait) (num)) (thread (wait)) (choices 0 1 1 0 2 0 0 0 0 0 0))",
            "(wg (thread (add 1)) (thread (wait)) (choices 0 0 1))",
            "(wg (thread (add 1) (add -2) (num) (done)) (thread (wait)) (choices 0 0 0 0 0 0))"]


def predicate(line, obs, allow_known=False):
    if obs.startswith("PANIC") or obs.startswith("bad"):
        return "harness error: " + obs[:120]
    if line.startswith("(wgacct"):
        n = len(next(x for x in C.parse_sx(line)[1:] if x[0] == "kinds")) - 1
        want = f"acct n={n} running={n} after=0 waitstuck=0"
        return None if obs == want else ("the goroutines started through Launch/DoTimes/Operation.Add/StartGroup are not accounted for "
                                         "exactly (counter while they run / after they ended / Wait): " + obs + " instead of " + want)
    if line.startswith("(wgstress"):
        return None if obs == "stress stuck=0" else ("a Wait with a live context stayed blocked although the counter reached zero "
                                                     "(a Done racing Wait's entry was lost): " + obs)
    if line.startswith("(wgprobe"):
        if obs != "probe unlocked=0 returned=1":
            return ("cancellation landing between Wait's select and cond.Wait is lost: the helper's Broadcast ran while "
                    "the waiter still held the mutex and the waiter stayed blocked (" + obs + ")")
        return None
    progs = SL.programs_of(line)
    steps, blocked, state, err = SL.parse(obs)
    if err and err.startswith("TIMEOUT"):
        return f"a goroutine that had to run did not: {err} (lost wake-up / hang)"
    if err:
        return err
    counter, pc, cancelled = 0, [0] * len(progs), set()
    for st in steps:
        if st.kind == "c":
            cancelled.add(st.tid)
        if st.kind in ("s", "r") and st.ret is not None:
            op = progs[st.tid][pc[st.tid]]
            if op[0] in ("add", "done"):
                d = int(op[1]) if op[0] == "add" else -1
                if counter + d < 0:
                    if st.ret != "panic":
                        return f"Add({d}) with counter {counter} did not panic"
                else:
                    if st.ret != "ok":
                        return f"Add({d}) with counter {counter} returned {st.ret}"
                    counter += d
            elif op[0] == "wait":
                if counter != 0 and st.tid not in cancelled:
                    return f"Wait of thread {st.tid} returned while the counter is {counter} and its context is live"
            elif op[0] == "num" and int(st.ret) != counter:
                return f"Num()={st.ret} but the completed Add/Done calls sum to {counter}"
            elif op[0] == "isdone" and (st.ret == "1") != (counter == 0):
                return f"IsDone()={st.ret} with counter {counter}"
            pc[st.tid] += 1
            cancelled.discard(st.tid)
        if st.kind == "s":
            pass
    for b in blocked:
        tid = int(b.split("@")[0])
        if counter == 0:
            return f"at quiescence thread {tid} is still blocked in Wait although the counter is 0"
        if tid in cancelled:
            return f"at quiescence thread {tid} is still blocked in Wait although its context was cancelled"
    if state != f"num={counter}":
        return f"final {state} but the completed calls sum to {counter}"
    return None


def nontrivial(line, obs):
    if line.startswith("(wgacct") or line.startswith("(wgstress"):
        return obs is not None
    return _nontrivial(line, obs)


def _nontrivial(line, obs):
    return obs is not None and "park:" in obs and ("wake=[" in obs and any(c.isdigit() for c in obs.split("wake=[", 1)[1][:3]) or "=c" in obs or "c" in obs)


def features(line, obs):
    if line.startswith("(wgacct"):
        return ["acct:" + line.split("(via ")[1].split(")")[0]] + (["acct:goexit"] if "goexit" in line else [])
    if line.startswith("(wgstress"):
        return ["stress"]
    if "probe" in line:
        return ["probe"]
    f = [f"threads:{line.count('(thread')}"]
    if obs:
        for k in ("park:", "ret:panic", "=ok wake=[", "TIMEOUT"):
            if k in obs:
                f.append("obs:" + k.strip(":=["))
        f.append(f"cancels:{min(obs.count('}c'), 3)}")
        f.append(f"fires:{min(obs.count('}f'), 5)}")
        f.append(f"resumes:{min(obs.count('}r'), 8)}")
        if "final blocked=[]" not in obs:
            f.append("final:blocked")
    return f


def shrink(line, fails):
    return line if not line.startswith("(wg ") else SL.shrink_choices(line, fails)


def classify(line, obs, why):
    return "probe" if "probe" in line else None


def conclusive(line):
    return line.startswith("(wgstress")
