"""C11 — Orchestrator, Group, WorkerPool, HandlerWorkerPool, Cleanup run all submitted work and collect all errors.

Tie: T-out (behavioural at the boundary).  A case line (harness/c11.go and lean/FunModel/Drv/C11.lean read it)

  (c11 (k orch|group|wp|hp|cleanup) (n N) (flags cp ce) (q 0 | hard soft) (units (outcome gated)...) (script step...))

is a deterministically sequenced scenario: the harness runs the real construct, sequencing the
environment's actions with channels, gates inside the services' / jobs' functions and a quiescence
barrier (`settle`: every other goroutine of the process is blocked — no sleeps), and prints the event
log on a logical clock plus errors.Is membership of the error Wait returned.  The Lean driver judges
`(judge <case> <obs>)` with the model's decidable outcome predicate (`FunModel.Orch.allowed…`, proved
to hold of every run of the model in FunProps/C11.lean); the oracle below evaluates the property
statement itself on the same observation, independently of the model."""
import os, re, sys
from . import common as C

PROP = "C11"
LEVEL = "proof"
RULE = ("scenarios for the five constructs (Orchestrator, Group, WorkerPool, HandlerWorkerPool, Cleanup): 0..12 services/jobs "
        "with outcomes {ok, err, panic, blocks-until-cancel, blocks-until-cancel-then-err}, each optionally gated (returns only "
        "when the script releases it: a slow shutdown); Add placed before Start / after Start / after k units finished / racing "
        "the cancellation (two goroutines) / after it; services handed to the orchestrator not yet started, running (started on "
        "the orchestrator's or on an independent context) or already finished; Start with a live or an already cancelled context; "
        "shutdown by cancelling the context or by Service.Close; Group: the context ends while the members are being started; "
        "pools: 1..4 workers, ContinueOnError/ContinueOnPanic on/off, unlimited queue or hard/soft limits 1..6. "
        "Non-trivial: at least one unit's function was entered; distinct = distinct case lines.")
TRUSTED = ["T-out: the process models of FunModel/Orch.lean are tied to srv/orchestrator.go and srv/implementations.go by outcome "
           "(the event log of each observed run is judged by the model's outcome predicate), not step by step, and by a drift "
           "guard (normalised hash of the modelled functions)",
           "the harness' quiescence barrier reads goroutine states from runtime.Stack",
           "assume/guarantee: Service is abstracted by its C10 contract, the unlimited Queue by its C05 FIFO contract, "
           "ParallelForEach by its C03 contract"]
ASSUMPTIONS = ["no other goroutine is inside Service.Start of a service at the moment the orchestrator dispatches it "
               "(the open finding orchestrator:add-during-start is replayed separately)",
               "a Group whose context ends while it is still iterating over its members starts only the members it has been "
               "handed by then", "the members of a Group are not started by anybody else; each service / job is handed over once",
               "Cleanup is used with timeout 0 (the timeout is wall-clock) and its functions do not block"]
HARNESS_ENV = {"VERIF_CASE_TIMEOUT_MS": "60000"}

KEY_DURING_START = "orchestrator:add-during-start"

OUTCOMES = ["ok", "err", "panic", "block", "berr"]
FAILS = {"err", "berr"}
BLOCKS = {"block", "berr"}


# ---------------------------------------------------------------------------------------------
# case construction
# ---------------------------------------------------------------------------------------------
def mk(kind, n, cp, ce, q, units, script):
    return C.sx(["c11", ["k", kind], ["n", n], ["flags", cp, ce], ["q"] + list(q), ["units"] + [[o, g] for o, g in units],
                 ["script"] + script])


def parse_case(line):
    t = C.parse_sx(line)
    d = {x[0]: x[1:] for x in t[1:]}
    return {"kind": d["k"][0], "n": int(d["n"][0]), "cp": int(d["flags"][0]), "ce": int(d["flags"][1]),
            "q": [int(x) for x in d["q"]], "units": [(u[0], int(u[1])) for u in d["units"]], "script": d["script"]}


def parse_obs(obs):
    t = C.parse_sx(obs)
    d = {x[0]: x[1:] for x in t[1:]}
    ev = [(e[0],) + tuple(int(x) for x in e[1:]) for e in d["ev"]]
    return {"ev": ev, "w": d["w"][0], "is": [b == "1" for b in d["is"]], "rp": d["rp"][0] == "1", "ns": d["ns"][0] == "1",
            "as": d["as"][0] == "1", "inv": d["inv"][0] == "1", "hang": d["hang"][0]}


def weighted(rng, pairs):
    tot = sum(w for _, w in pairs)
    x = rng.random() * tot
    for v, w in pairs:
        x -= w
        if x <= 0:
            return v
    return pairs[-1][0]


def gen_units(rng, n, outcomes, gate_p):
    out = []
    for _ in range(n):
        o = weighted(rng, outcomes)
        out.append((o, int(rng.random() < gate_p)))
    return out


def rel_all(rng, units, which, settle_p=0.3):
    """release the gated units of `which` in random order, sometimes with a settle in between"""
    ids = [i for i in which if units[i][1]]
    rng.shuffle(ids)
    out = []
    for i in ids:
        out.append(["rel", i])
        if rng.random() < settle_p:
            out.append(["settle"])
    return out


def size(rng, tier):
    hi = 12 if tier == "quick" else rng.choice([12, 12, 12, 24, 40])
    return rng.choice([0, 1, 2, 3, 5, 8, hi, rng.randrange(0, hi + 1), rng.randrange(0, hi + 1)])


def end_step(rng):
    return [rng.choice(["cancel", "cancel", "close"])]


# ---- orchestrator -------------------------------------------------------------------------
def gen_orch(rng, tier, open_keys):
    n = size(rng, tier)
    units = gen_units(rng, n, [("ok", 4), ("err", 3), ("panic", 2), ("block", 3), ("berr", 2)], 0.45)
    pre = {}          # i -> ("new",) | ("running", c) | ("finished", c)
    when = {}
    for i, (o, g) in enumerate(units):
        p = weighted(rng, [("new", 6), ("running", 2), ("finished", 1.5)])
        c = rng.choice("os")
        if p == "finished" and o in BLOCKS:
            c = "s"           # it can only finish before the orchestrator's context ends if it has its own
        pre[i] = (p, c)
        when[i] = weighted(rng, [("pre", 3), ("post", 4), ("afterk", 2), ("race", 1.5), ("late", 0.7)])
    startc = rng.random() < 0.08
    sc = []
    released = set()
    for i in range(n):
        p, c = pre[i]
        if p in ("running", "finished"):
            sc.append(["xstart", i, c])
        if p == "finished":
            if units[i][1]:
                sc.append(["rel", i]); released.add(i)
            if units[i][0] in BLOCKS:
                sc.append(["xcancel", i])
            sc.append(["xwait", i])
    if any(pre[i][0] != "new" for i in range(n)):
        sc.append(["settle"])
    for i in range(n):
        if when[i] == "pre":
            sc.append(["add", i])
    if startc:
        # everything that is to count as accepted is added before; the rest comes after the (cancelled) start
        sc.append(["startc"]); sc.append(["settle"])
        for i in range(n):
            if when[i] != "pre":
                sc.append(["add", i])
        sc.append(["settle"])
    else:
        sc.append(["start"])
        if rng.random() < 0.7:
            sc.append(["settle"])
        added = [i for i in range(n) if when[i] == "pre"]
        for i in range(n):
            if when[i] == "post":
                sc.append(["add", i]); added.append(i)
                if rng.random() < 0.3:
                    sc.append(["settle"])
        sc.append(["settle"])
        for i in range(n):
            if when[i] == "afterk":
                cand = [j for j in added if units[j][1] and j not in released and units[j][0] not in BLOCKS]
                for j in rng.sample(cand, min(len(cand), rng.randrange(0, 3))):
                    sc.append(["rel", j]); released.add(j)
                sc.append(["settle"])
                sc.append(["add", i]); added.append(i)
        sc.append(["settle"])
        race = [["add", i] for i in range(n) if when[i] == "race"]
        if race:
            sc.append(["par", race, [end_step(rng)]])
        else:
            sc += [end_step(rng)]
        for i in range(n):
            if when[i] == "late":
                sc.append(["add", i])
        sc.append(["settle"])
    # shutdown: open what is still gated, end the independent contexts (after a Close the parent context is still
    # live: services started from outside on it go on until it is cancelled too)
    rest = [i for i in range(n) if i not in released]
    rng.shuffle(rest)
    if any(st == ["close"] or (st[0] == "par" and ["close"] in st[2]) for st in sc):
        sc.append(["cancel"])
    for i in rest:
        p, c = pre[i]
        if p == "running" and c == "s" and units[i][0] in BLOCKS:
            sc.append(["xcancel", i])
        if units[i][1]:
            sc.append(["rel", i])
        if rng.random() < 0.25:
            sc.append(["settle"])
    sc += [["settle"], ["join"]]
    return mk("orch", 1, 0, 0, [0], units, sc)


# ---- group ----------------------------------------------------------------------------------
def gen_group(rng, tier, open_keys):
    n = size(rng, tier)
    units = gen_units(rng, n, [("ok", 4), ("err", 3), ("panic", 2), ("block", 3), ("berr", 2)], 0.5)
    sc = []
    shape = weighted(rng, [("normal", 6), ("selfend", 2), ("cancelat", 1.5), ("startc", 0.5), ("raceend", 1)])
    if shape == "selfend":
        units = [(o if o not in BLOCKS else "ok", g) for o, g in units]
    if shape == "cancelat" and n > 0:
        sc.append(["cancelat", rng.randrange(n)])
    if shape == "startc":
        sc += [["startc"], ["settle"]]
    elif shape == "raceend":
        sc += [["par", [["start"]], [["cancel"]]], ["settle"]]
    else:
        sc += [["start"], ["settle"]]
    ids = list(range(n))
    if shape in ("normal", "selfend"):
        some = [i for i in ids if units[i][1] and rng.random() < 0.5]
        sc += rel_all(rng, units, some)
        sc.append(["settle"])
        if shape == "normal":
            sc += [end_step(rng), ["settle"]]
        ids = [i for i in ids if i not in some]
    sc += rel_all(rng, units, ids)
    sc += [["settle"], ["join"]]
    return mk("group", 1, 0, 0, [0], units, sc)


# ---- pools ----------------------------------------------------------------------------------
def gen_pool(rng, tier, open_keys, kind):
    n = size(rng, tier)
    workers = rng.randrange(1, 5)
    cp, ce = weighted(rng, [((1, 1), 5), ((0, 0), 2), ((0, 1), 1), ((1, 0), 1)])
    q = [0] if rng.random() < 0.6 else None
    if q is None:
        hard = rng.randrange(1, 7)
        q = [hard, rng.randrange(1, hard + 1)]
    units = gen_units(rng, n, [("ok", 6), ("err", 3), ("panic", 2), ("block", 1), ("berr", 0.7)], 0.3)
    when = [weighted(rng, [("pre", 1.5), ("run", 6), ("race", 1.2), ("late", 0.6)]) for _ in range(n)]
    sc = []
    for i in range(n):
        if when[i] == "pre":
            sc.append(["add", i])
    startc = rng.random() < 0.06
    released = set()
    if startc:
        sc += [["startc"], ["settle"]]
        sc += [["add", i] for i in range(n) if when[i] != "pre"]
    else:
        sc += [["start"]]
        if rng.random() < 0.6:
            sc.append(["settle"])
        added = [i for i in range(n) if when[i] == "pre"]
        for i in range(n):
            if when[i] == "run":
                sc.append(["add", i]); added.append(i)
                r = rng.random()
                if r < 0.35:
                    sc.append(["settle"])
                elif r < 0.55:
                    cand = [j for j in added if units[j][1] and j not in released and units[j][0] not in BLOCKS]
                    if cand:
                        j = rng.choice(cand); released.add(j)
                        sc += [["rel", j], ["settle"]]
        sc.append(["settle"])
        if rng.random() < 0.5:
            cand = [j for j in added if units[j][1] and j not in released and units[j][0] not in BLOCKS]
            for j in cand:
                sc.append(["rel", j]); released.add(j)
            sc.append(["settle"])
        race = [["add", i] for i in range(n) if when[i] == "race"]
        if race:
            sc.append(["par", race, [end_step(rng)]])
        else:
            sc += [end_step(rng)]
        sc += [["add", i] for i in range(n) if when[i] == "late"]
    sc.append(["settle"])
    sc += rel_all(rng, units, [i for i in range(n) if i not in released])
    sc += [["settle"], ["join"]]
    return mk(kind, workers, cp, ce, q, units, sc)


# ---- cleanup --------------------------------------------------------------------------------
def gen_cleanup(rng, tier, open_keys):
    n = size(rng, tier)
    units = gen_units(rng, n, [("ok", 5), ("err", 3), ("panic", 2)], 0.0)
    when = [weighted(rng, [("pre", 2), ("run", 5), ("race", 2), ("late", 1)]) for _ in range(n)]
    sc = [["add", i] for i in range(n) if when[i] == "pre"]
    if rng.random() < 0.15:
        sc += [["startc"]]
        sc += [["add", i] for i in range(n) if when[i] != "pre"]
    else:
        sc += [["start"]]
        for i in range(n):
            if when[i] == "run":
                sc.append(["add", i])
                if rng.random() < 0.3:
                    sc.append(["settle"])
        if rng.random() < 0.5:
            sc.append(["settle"])
        race = [["add", i] for i in range(n) if when[i] == "race"]
        if race:
            sc.append(["par", race, [end_step(rng)]])
        else:
            sc += [end_step(rng)]
        sc += [["add", i] for i in range(n) if when[i] == "late"]
    sc += [["settle"], ["join"]]
    return mk("cleanup", 1, 0, 0, [0], units, sc)


def gen(rng, tier, open_keys):
    per = 60 if tier == "quick" else 7500
    out, seen = [], set(corpus())
    for _ in range(per):
        for g in (gen_orch, gen_group, gen_cleanup, lambda r, t, o: gen_pool(r, t, o, "wp"), lambda r, t, o: gen_pool(r, t, o, "hp")):
            l = g(rng, tier, open_keys)
            if l not in seen:
                seen.add(l); out.append(l)
    return out


W_D21 = mk("group", 1, 0, 0, [0], [("block", 0), ("ok", 1), ("err", 0)],
           [["start"], ["settle"], ["rel", 1], ["settle"], ["cancel"], ["settle"], ["join"]])
W_D22 = mk("cleanup", 1, 0, 0, [0], [("ok", 0), ("err", 0), ("panic", 0)], [["add", 0], ["add", 1], ["startc"], ["add", 2], ["settle"], ["join"]])
W_D22_RACE = mk("cleanup", 1, 0, 0, [0], [("ok", 0)] * 12,
                [["start"]] + [["add", i] for i in range(12)] + [["cancel"], ["settle"], ["join"]])
W_RUNNING_OWN = mk("orch", 1, 0, 0, [0], [("block", 1), ("ok", 0)],
                   [["xstart", 0, "s"], ["start"], ["add", 0], ["add", 1], ["settle"], ["cancel"], ["settle"], ["xcancel", 0],
                    ["settle"], ["rel", 0], ["settle"], ["join"]])
W_RUNNING_SHARED = mk("orch", 1, 0, 0, [0], [("berr", 1), ("ok", 0)],
                      [["xstart", 0, "o"], ["start"], ["add", 0], ["add", 1], ["settle"], ["cancel"], ["settle"], ["rel", 0],
                       ["settle"], ["join"]])
W_GROUP_CANCELAT = mk("group", 1, 0, 0, [0], [("ok", 1)] * 4,
                      [["cancelat", 3], ["start"], ["settle"], ["rel", 0], ["rel", 1], ["rel", 2], ["rel", 3], ["settle"], ["join"]])
W_DURING_START = mk("orch", 1, 0, 0, [0], [("err", 1), ("ok", 0)],
                    [["start"], ["xslow", 0, "o"], ["settle"], ["add", 0], ["add", 1], ["settle"], ["xgo", 0], ["settle"],
                     ["cancel"], ["settle"], ["rel", 0], ["settle"], ["join"]])


def corpus():
    return [W_D21, W_D22, W_D22_RACE, W_RUNNING_OWN, W_RUNNING_SHARED, W_GROUP_CANCELAT,
            mk("orch", 1, 0, 0, [0], [("ok", 0), ("err", 1), ("block", 0), ("panic", 0)],
               [["add", 0], ["start"], ["add", 1], ["settle"], ["add", 2], ["add", 3], ["settle"], ["rel", 1], ["settle"],
                ["cancel"], ["settle"], ["join"]]),
            mk("wp", 2, 1, 1, [0], [("ok", 0), ("err", 0), ("panic", 0), ("block", 0), ("ok", 1)],
               [["start"]] + [["add", i] for i in range(5)] + [["settle"], ["rel", 4], ["settle"], ["cancel"], ["settle"], ["join"]]),
            mk("hp", 2, 1, 1, [4, 2], [("ok", 0), ("err", 0), ("panic", 0), ("block", 0), ("ok", 1), ("err", 0)],
               [["start"]] + [["add", i] for i in range(6)] + [["settle"], ["rel", 4], ["settle"], ["close"], ["settle"], ["join"]])]


def known_witnesses():
    return {KEY_DURING_START: [W_DURING_START]}


# ---------------------------------------------------------------------------------------------
# independent oracle: the property statement, evaluated on the observed event log
# ---------------------------------------------------------------------------------------------
def predicate(line, obs, allow_known=False):
    if obs is None:
        return "the implementation produced no output (crash or hang)"
    if obs.startswith("PANIC") or obs.startswith("bad"):
        return "a panic escaped the construct / the case was rejected: " + obs[:200]
    if obs.startswith("REJECT"):
        return None      # the model's verdict: handled as a disagreement
    c = parse_case(line)
    try:
        o = parse_obs(obs)
    except Exception:  # noqa
        return "unparsable observation " + obs[:120]
    kind, units, ev = c["kind"], c["units"], o["ev"]
    what = {"orch": "service", "group": "member", "wp": "job", "hp": "job", "cleanup": "cleanup function"}[kind]
    if o["hang"] != "0":
        return f"the scenario did not come to an end (harness step '{o['hang']}' hit the hang deadline)"
    pos = {}

    def first(e):
        return pos.get(e)
    for k, e in enumerate(ev):
        pos.setdefault(e, k)
    nS = [sum(1 for e in ev if e == ("S", i)) for i in range(len(units))]
    cpos = first(("C",))
    wpos = first(("W",))
    # -- at most once, for everything
    for i, k in enumerate(nS):
        if k > 1:
            return f"{what} {i} was run {k} times"
    if wpos is None and ("T", 0) in pos:
        return "Wait never returned"

    def must_report(i):
        out = units[i][0]
        if out in FAILS and not o["is"][i]:
            return (f"the error {what} {i} returned is not found by errors.Is in the error Wait returned"
                    + (" (Wait returned nil)" if o["w"] == "nil" else ""))
        if out == "panic" and not o["rp"]:
            return f"{what} {i} panicked but errors.Is(Wait's error, ErrRecoveredPanic) is false"
        return None

    def awaited(i):
        r = first(("R", i))
        if r is None or (wpos is not None and r > wpos):
            return (f"Wait returned (event {wpos}) before {what} {i} had returned"
                    + ("" if r is None else f" (event {r})") + f": {what} {i} was not awaited")
        return None

    if kind == "orch":
        for i in range(len(units)):
            a = first(("A", i, 0))
            live = a is not None and (cpos is None or a < cpos)
            if not live:
                continue
            if nS[i] != 1:
                return f"service {i} was added before the orchestrator's context was cancelled but was never started"
            w = awaited(i) or must_report(i)
            if w:
                return w + ("; Wait's error carries ErrServiceNotStarted" if o["ns"] else "")
        return None

    if kind == "group":
        for i in range(len(units)):
            y = first(("Y", i))
            if y is None:
                if nS[i]:
                    return f"member {i} was started although the group never took it from its iterator"
                continue
            if nS[i] != 1:
                return f"member {i} was handed to the group but never started"
            d = first(("D", i))
            if d is not None and (cpos is None or d < cpos):
                return (f"member {i} saw its context end (event {d}) although it had not returned and the group's own context "
                        f"was still live" + ("" if cpos is None else f" (it ended at event {cpos})"))
            w = awaited(i) or must_report(i)
            if w:
                return w + ("; Wait's error carries an invariant violation" if o["inv"] else "")
        return None

    if kind in ("wp", "hp"):
        n = c["n"]
        stopped = False      # the pool stopped itself (abort mode): it does not "keep running"
        for k, e in enumerate(ev):
            if e[0] == "R":
                out = units[e[1]][0]
                if (out in FAILS and not c["ce"] and kind == "wp") or (out == "panic" and not c["cp"]):
                    stopped = True
            if e == ("C",):
                break
            if e == ("Q",) and not stopped and ("T", 0) in pos and pos[("T", 0)] < k:
                busy = [i for i in range(len(units)) if ("S", i) in pos and pos[("S", i)] < k
                        and not (("R", i) in pos and pos[("R", i)] < k)]
                if len(busy) < n:
                    for i in range(len(units)):
                        a = first(("A", i, 0))
                        if a is not None and a < k and not (("S", i) in pos and pos[("S", i)] < k):
                            return (f"job {i} was accepted while the pool was running and the pool is at rest with "
                                    f"{n - len(busy)} idle worker(s), yet the job has not been run")
        for i in range(len(units)):
            if first(("A", i, 1)) is not None and nS[i]:
                return f"job {i} was rejected by the queue but was run"
            if first(("A", i, 0)) is None and first(("A", i, 1)) is None and nS[i]:
                return f"job {i} was never added but was run"
            if nS[i] and first(("R", i)) is not None:
                out = units[i][0]
                if kind == "hp" and out in FAILS:
                    if first(("H", i)) is None:
                        return f"the error job {i} returned was never given to the handler"
                else:
                    w = must_report(i)
                    if w:
                        return w
        return None

    if kind == "cleanup":
        for i in range(len(units)):
            if first(("A", i, 1)) is not None and nS[i]:
                return f"cleanup function {i} was rejected by the pipe but was run"
            if first(("A", i, 0)) is None:
                continue
            if nS[i] != 1:
                return (f"cleanup function {i} was accepted (Add returned nil) but was never run: "
                        f"{sum(1 for k in nS if k)} of {sum(1 for j in range(len(units)) if first(('A', j, 0)) is not None)} accepted functions ran")
            if cpos is None or pos[("S", i)] < cpos:
                return f"cleanup function {i} was run before the shutdown began"
            w = awaited(i) or must_report(i)
            if w:
                return w
        return None
    return "unknown construct"


def classify(line, obs, why):
    c = parse_case(line)
    if c["kind"] == "orch" and any(s[0] == "xslow" for s in c["script"]):
        return KEY_DURING_START
    for pat, key in (("context end", "members-cancelled-early"), ("accepted (Add returned nil) but was never run", "accepted-not-run"),
                     ("not awaited", "not-awaited"), ("not found by errors.Is", "error-lost"), ("ErrRecoveredPanic", "panic-lost"),
                     ("never started", "not-started"), ("times", "run-twice"), ("did not come to an end", "hang"),
                     ("idle worker", "pool-not-exactly-once"), ("rejected", "rejected-run"), ("handler", "handler-missed"),
                     ("before the shutdown", "cleanup-early"), ("Wait never returned", "no-wait")):
        if pat in why:
            return c["kind"] + ":" + key
    return c["kind"] + ":other"


def nontrivial(line, obs):
    return obs is not None and "(S " in obs


def features(line, obs):
    c = parse_case(line)
    f = ["kind:" + c["kind"], f"units:{min(len(c['units']), 16) // 4 * 4}+"]
    for o_, g in set(c["units"]):
        f.append(f"outcome:{o_}{'-gated' if g else ''}")
    for s in c["script"]:
        if s[0] in ("par", "startc", "close", "cancelat", "xstart", "xslow"):
            f.append("step:" + s[0] + (":" + s[2] if s[0] == "xstart" else ""))
    if c["kind"] in ("wp", "hp"):
        f.append(f"workers:{c['n']}"); f.append(f"flags:{c['cp']}{c['ce']}"); f.append("queue:" + ("unl" if c["q"] == [0] else "lim"))
    if obs and obs.startswith("(obs"):
        try:
            o = parse_obs(obs)
            f.append("wait:" + o["w"])
            if any(e[0] == "A" and e[2] == 1 for e in o["ev"]):
                f.append("add-rejected")
            cp = next((k for k, e in enumerate(o["ev"]) if e == ("C",)), None)
            if cp is not None and any(e[0] == "A" and e[2] == 0 and k > cp for k, e in enumerate(o["ev"])):
                f.append("add-accepted-after-cancel")
        except Exception:  # noqa
            pass
    return f


def drop_unit(c, i):
    """the scenario without unit i (later units renumbered)"""
    def ren(s):
        if s[0] == "par":
            return ["par"] + [[x for x in (ren(y) for y in br) if x is not None] for br in s[1:]]
        if s[0] in ("add", "rel", "xstart", "xslow", "xgo", "xcancel", "xwait", "cancelat"):
            j = int(s[1])
            if j == i:
                return None
            return [s[0], j - 1 if j > i else j] + list(s[2:])
        return list(s)
    script = [x for x in (ren(s) for s in c["script"]) if x is not None]
    return mk(c["kind"], c["n"], c["cp"], c["ce"], c["q"], c["units"][:i] + c["units"][i + 1:], script)


def shrink(line, fails):
    budget = 60
    changed = True
    while changed and budget > 0:
        changed = False
        c = parse_case(line)
        for i in reversed(range(len(c["units"]))):
            budget -= 1
            l2 = drop_unit(c, i)
            if fails(l2) and fails(l2):
                line, changed = l2, True
                break
            if budget <= 0:
                break
    return line


# ---------------------------------------------------------------------------------------------
# drift guard: the functions the models were written against
# ---------------------------------------------------------------------------------------------
MODELLED = {"srv/orchestrator.go": ["Add", "Service", "setup"],
            "srv/implementations.go": ["Group", "Cleanup", "WorkerPool", "HandlerWorkerPool"]}


def func_text(src, name):
    """source text of the top-level func (or method) `name`, comments and blank space removed"""
    m = re.search(r"^func (\([^)]*\) )?" + re.escape(name) + r"[\[(]", src, flags=re.M)
    if not m:
        return None
    i = src.index("{", m.end() - 1)
    # the first "{" that opens the body: skip the parameter list / result types (no braces in them here)
    depth, j = 0, i
    while j < len(src):
        ch = src[j]
        if ch == "{":
            depth += 1
        elif ch == "}":
            depth -= 1
            if depth == 0:
                break
        j += 1
    body = src[m.start():j + 1]
    body = re.sub(r"//[^\n]*", "", body)
    body = re.sub(r"/\*.*?\*/", "", body, flags=re.S)
    return re.sub(r"\s+", " ", body).strip()


def shapes():
    import hashlib
    out = {}
    for rel, names in MODELLED.items():
        src = open(os.path.join(C.REPO, rel)).read()
        for nm in names:
            t = func_text(src, nm)
            out[f"{rel}:{nm}"] = hashlib.sha256(t.encode()).hexdigest()[:16] if t else "missing"
    return out


def shapes_path():
    return os.path.join(C.LEAN, "FunModel", "OrchShapes.json")


def drift():
    import json
    try:
        want = json.load(open(shapes_path()))
    except Exception as e:  # noqa
        return [f"cannot read {shapes_path()}: {e}"]
    have = shapes()
    return [f"{k}: modelled {want.get(k)} now {have.get(k)}" for k in sorted(set(want) | set(have)) if want.get(k) != have.get(k)]


def extra_coverage():
    return {"drift_guard": {"file": "lean/FunModel/OrchShapes.json", "functions": sorted(shapes()), "mismatches": drift()}}


# ---------------------------------------------------------------------------------------------
# runner: generic differential runner; the driver judges the observed runs
# ---------------------------------------------------------------------------------------------
def main(tier, seed, replay):
    from . import diffcheck
    if os.environ.get("VERIF_C11_WRITE_SHAPES") == "1":
        import json
        json.dump(shapes(), open(shapes_path(), "w"), indent=1, sort_keys=True)
    os.environ.setdefault("VERIF_C11_HANG_MS", "10000" if tier == "quick" else "20000")   # hang detector only
    orig = C.run_lines
    orig_build = C.lake_build
    last = {"lines": None, "obs": None}

    def run_lines(binary, args, lines, timeout=600, env=None):
        if binary != C.driver_bin():
            res = orig(binary, args, lines, timeout=max(timeout, 3000), env=env)
            last["lines"], last["obs"] = list(lines), list(res[0])
            return res
        obs = last["obs"] if last["lines"] == list(lines) else [None] * len(lines)
        lines2 = [f"(judge {l} {o})" if (o is not None and o.startswith("(obs")) else "(nojudge)" for l, o in zip(lines, obs)]
        out, rc, err = orig(binary, args, lines2, timeout=timeout, env=env)
        out = [o if (m == "ok" or l2 == "(nojudge)") else m for o, l2, m in zip(obs, lines2, out)]
        return out, rc, err

    def lake_build(targets):
        ok, out = orig_build(targets)
        d = drift()
        if ok and d:
            return False, "error: drift guard: the Go functions the C11 models were written against changed: " + "; ".join(d)
        return ok, out
    C.run_lines, C.lake_build = run_lines, lake_build
    try:
        rc = diffcheck.run(sys.modules[__name__], tier, seed, replay)
    finally:
        C.run_lines, C.lake_build = orig, orig_build
    if tier == "thorough" and not replay and os.environ.get("VERIF_C11_NO_RACE") != "1":
        rc = race_pass(seed) or rc
    return rc


def race_pass(seed, n=10000):
    """thorough tier: the same kind of scenarios on a harness built with -race; a report of the race detector or a
    failure of the property predicate is a violation (the observations are not compared with the model again)"""
    import json, random, time
    t0 = time.time()
    rep = C.Report(PROP)
    ok, out, hbin = C.build_harness(race=True)
    if not ok:
        print(out[-2000:]); print("ERROR: the -race harness does not build")
        return 2
    rng = random.Random(seed * 7919 + 11)
    open_keys = {f["key"] for f in C.known_findings(PROP) if f.get("status") == "open"}
    cases = (corpus() + gen(rng, "thorough", open_keys))[:n]
    env = dict(os.environ, **HARNESS_ENV)
    obs, rc, err = C.run_lines(hbin, [PROP], cases, timeout=3000, env=env)
    bad = [(l, o, predicate(l, o)) for l, o in zip(cases, obs) if predicate(l, o)]
    bad = [(l, o, w) for l, o, w in bad if predicate(l, C.run_lines(hbin, [PROP], [l], timeout=300, env=env)[0][0])][:3]
    for k, (l, o, w) in enumerate(bad):
        path = C.write_replay(PROP, f"violation-race-{seed}-{k}.txt", f"# property {PROP} (-race build): {w}\n{l}\n# implementation: {o}\n")
        rep.violation(path, w[:300])
    raced = rc == 66 or "DATA RACE" in err or "data race" in err
    if raced:
        path = C.write_replay(PROP, f"violation-race-{seed}-detector.txt",
                              f"# property {PROP}: the race detector reported a data race while the scenarios ran\n# stderr (tail):\n"
                              + "\n".join("# " + x for x in err[-3000:].splitlines()) + "\n")
        rep.violation(path, "the race detector reported a data race in the constructs under the C11 scenarios", found=False)
    try:
        evp = os.path.join(C.evidence_dir(), PROP + ".json")
        ev = json.load(open(evp))
        ev["coverage"]["race_pass"] = {"cases": len(cases), "predicate_failures": len(bad), "race_reports": int(raced),
                                       "wall_s": round(time.time() - t0, 1)}
        ev["violations"] = ev.get("violations", 0) + len(rep.violations)
        json.dump(ev, open(evp, "w"), indent=1, sort_keys=True)
    except Exception as e:  # noqa
        print("note: could not add the race pass to the evidence:", e)
    print(f"{PROP}: -race pass: {len(cases)} cases, {len(bad)} property failures, race reports: {int(raced)}; {time.time()-t0:.1f}s")
    return rep.finish()
