"""C10 — srv.Service lifecycle.

Three kinds of case (harness/c10.go, lean/FunModel/Drv/C10.lean):
  (svc (cfg R S C H blocks) (thread op...)... (choices n...))   T-sched: schedules of the model's atomic
        steps realised on the real Service through the yield points; observation lines and enabled
        sets are compared step by step with the Lean model.
  (svcmatrix (cfg R S C H 0) ending when)    the exhaustive outcome matrix on the implementation; the call
        log (logical clock) is judged by the model's decidable `allowedLog` and by `predicate` below.
  (svcfree (cfg R S C H blocks) (thread op...)...)   1-16 really concurrent callers; same judgement.
R/S/C/H in {absent ok err panic} for Run/Shutdown/Cleanup/ErrorHandler."""
import os, random, re
from . import common as C
from . import schedlog as SL

PROP = "C10"
LEVEL = "proof"
RULE = ("(i) T-sched: 1-16 caller threads with programs over Start(parent)/Close/Wait/Running, random phase outcomes, "
        "schedules chosen by a seeded choice list among the enabled atomic steps of callers, Run goroutine, shutdown "
        "goroutine, handler goroutine and parent cancellations; replayed action by action on the Lean model, observations "
        "(gate reached / value returned / Running()) and enabled sets must agree. (ii) the full matrix 4^4 outcomes x "
        "{returns, close, parent} x {before, after Start returns} (+ parent cancel / immediate return before Start is "
        "called) every run, sequenced through hook channels, call log accepted by the model's allowedLog and by the "
        "independent predicate. (iii) 1-16 free-running concurrent callers, same judgement. Non-trivial: some Start "
        "returned nil and at least one phase function ran; distinct = distinct case lines.")
TRUSTED = ["atomics sequentially consistent, sync.Once, channel close, context cancellation as modelled in FunModel/Service.lean",
           "the yield points in srv/service.go mark the boundaries of the model's atomic steps (MANIFEST.hooks); "
           "enabledness of a blocked actor is probed on the real channel/context/wait-group handed to the hook, "
           "except sync.Once (tracked by the harness)",
           "a nil Run is treated as a Run phase that panics (the nil call panics in the Run goroutine and is recovered)"]
ASSUMPTIONS = ["Run returns once its context has ended (the documented contract)",
               "the ErrorHandler is set before Start and not changed"]
HARNESS_ENV = {}
OUTS = ["absent", "ok", "err", "panic"]
ERR_ID = {"run": 11, "shutdown": 12, "cleanup": 13}
PANIC = 1000
PHASES = ["run", "shutdown", "cleanup", "handler"]


def variant():
    v = os.environ.get("VERIF_C10_VARIANT", "")
    return [["variant"] + [int(c) for c in v]] if len(v) == 3 else []


# ---------------------------------------------------------------------------------------------
# generators
# ---------------------------------------------------------------------------------------------
def gen_prog(rng, role):
    if role == "starter":
        ops = [["start", rng.choice([0, 0, 1])]]
        for _ in range(rng.choice([0, 1, 2, 3])):
            ops.append(rng.choice([["wait"], ["running"], ["close"], ["wait"], ["start", 0]]))
        return ops
    if role == "closer":
        return [rng.choice([["close"], ["running"]]) for _ in range(rng.choice([1, 2]))] + ([["wait"]] if rng.random() < 0.5 else [])
    if role == "waiter":
        return [["wait"]] + ([["running"]] if rng.random() < 0.7 else []) + ([["start", 0]] if rng.random() < 0.3 else [])
    return [rng.choice([["start", rng.choice([0, 1])], ["close"], ["wait"], ["running"]]) for _ in range(rng.choice([1, 2, 3, 4]))]


def gen_cfg(rng, blocks=None):
    return ["cfg"] + [rng.choice(OUTS if i else ["ok", "ok", "err", "panic", "absent"]) for i in range(4)] + \
        [rng.choice([0, 1]) if blocks is None else blocks]


def gen_threads(rng):
    n = rng.choice([1, 2, 2, 3, 3, 4, 5, 6, 8, 12, 16])
    roles = ["starter"] + [rng.choice(["starter", "closer", "waiter", "any"]) for _ in range(n - 1)]
    rng.shuffle(roles)
    return [["thread"] + gen_prog(rng, r) for r in roles]


def gen_sched(rng):
    threads = gen_threads(rng)
    style = rng.random()
    ln = rng.choice([10, 30, 60, 120, 200])
    if style < 0.5:
        choices = [rng.randrange(0, 24) for _ in range(ln)]
    elif style < 0.75:   # favour the last enabled actors (the service goroutines, cancellations)
        choices = [rng.choice([0, 1, 2, 3, 4, 5, 6]) if rng.random() < 0.3 else 1000 - rng.choice([1, 1, 2, 2, 3, 4]) for _ in range(ln)]
    else:                # long runs of one index: one actor races ahead
        choices, cur = [], 0
        while len(choices) < ln:
            cur = rng.randrange(0, 12)
            choices += [cur] * rng.choice([1, 3, 6, 12])
    return C.sx(["svc", gen_cfg(rng)] + variant() + threads + [["choices"] + choices])


def gen_directed(rng):
    """schedules aimed at the narrow windows: Run's whole chain inside Start's closure, a stale Start parked
    between its isFinished load and its Swap, observers inside the finish sequence of the Run goroutine.
    Choices are actor names (skipped when that actor is not enabled), with random perturbation."""
    n = rng.choice([2, 2, 3, 4, 6])
    threads = [["thread", ["start", 0]] + [rng.choice([["wait"], ["running"], ["close"], ["start", 0]])
                                          for _ in range(rng.choice([1, 2, 3]))]]
    for _ in range(n - 1):
        threads.append(["thread"] + gen_prog(rng, rng.choice(["starter", "starter", "waiter", "closer", "any"])))
    others = [f"t{i}" for i in range(1, n)]
    chain = ["rg"] * 4 + ["sd"] * 4 + ["rg"] * 8 + ["eh"] * 4
    kind = rng.choice(["inside-closure", "stale-start", "finish-window", "mix"])
    ch = []
    if kind == "inside-closure":
        ch += [rng.choice(others) for _ in range(rng.choice([0, 1, 2]))]
        ch += ["t0"] * rng.choice([4, 4, 5]) + rng.choice([[], ["p0"], [rng.choice(others)]])
        ch += chain + ["t0"] * 4
    elif kind == "stale-start":
        ch += others[:rng.choice([1, len(others)])] + ["t0"] * 6 + rng.choice([[], ["p0"], ["t0"]]) + chain
        ch += ["t0"] * 2 + [x for o in others for x in [o] * rng.choice([1, 2])] + ["t0"] * 2
    elif kind == "finish-window":
        ch += ["t0"] * 6 + rng.choice([[], ["p0"]]) + ["rg"] * 4 + ["sd"] * 4 + ["rg"] * rng.choice([2, 3, 4, 5])
        ch += [rng.choice(others + ["t0"]) for _ in range(rng.choice([2, 4, 8]))] + ["rg"] * 6 + ["eh"] * 4
    else:
        ch += [rng.choice(["t0"] + others + ["rg", "sd", "eh", "p0"]) for _ in range(rng.choice([20, 60]))]
    # perturb: drop or insert a few labels, then a random numeric tail
    ch = [c for c in ch if rng.random() > 0.05]
    for _ in range(rng.choice([0, 1, 3])):
        ch.insert(rng.randrange(0, len(ch) + 1), rng.choice(["t0"] + others + ["rg", "sd", "eh"]))
    ch += [rng.randrange(0, 12) for _ in range(rng.choice([0, 10, 30]))]
    return C.sx(["svc", gen_cfg(rng)] + variant() + threads + [["choices"] + ch])


def matrix():
    out = []
    for r in OUTS:
        for s in OUTS:
            for c in OUTS:
                for h in OUTS:
                    cfg = ["cfg", r, s, c, h, 0]
                    for ending in ("returns", "close", "parent"):
                        for when in ("before", "after"):
                            out.append(C.sx(["svcmatrix", cfg, ending, when]))
                    out.append(C.sx(["svcmatrix", cfg, "parent", "prestart"]))
                    out.append(C.sx(["svcmatrix", cfg, "returns", "prestart"]))
    return out


def gen_free(rng):
    return C.sx(["svcfree", gen_cfg(rng)] + gen_threads(rng))


def gen(rng, tier, open_keys):
    nsched, nfree, rounds = (700, 250, 1) if tier == "quick" else (40000, 12000, 12)
    out = []
    for _ in range(rounds):
        out += matrix()
    out += [gen_sched(rng) for _ in range(nsched)]
    out += [gen_directed(rng) for _ in range(nsched // 2)]
    out += [gen_free(rng) for _ in range(nfree)]
    return out


def witness(cfg, threads, labels_or_choices):
    return C.sx(["svc", cfg] + variant() + threads + [["choices"] + labels_or_choices])


def corpus():
    """regression schedules: the counter-schedules of D19/D20 and of the transient Running() window
    (see FunProps/C10.lean `witness_*`), expressed as choice lists for the canonical enabled order"""
    return list(WITNESSES.values())


WITNESSES = {
    # D19: Run's whole deferred chain (isFinished=true, isRunning=false) runs while the starter is still at
    # Start.launched; the deferred isRunning.Store(true) then pins Running() to true after Wait
    "D19": "(svc (cfg ok ok ok ok 0) (thread (start 0) (wait) (running)) (choices 0 0 0 0 1 1 1 1 1 1 1 2 1 1 1 1 1 1 1 1 1 1 0 0 0 0))",
    # D20: t1 is parked at Start.checked (isFinished was false); t0 starts, the service finishes, Wait returns;
    # t1's Swap(true) then succeeds: a second Start returns nil and Running() is true
    "D20": "(svc (cfg ok absent absent absent 0) (thread (start 0) (wait)) (thread (start 0) (running)) (choices 1 0 0 0 0 0 0 2 2 2 2 2 2 3 2 2 2 2 2 2 2 2 2 0 0 0 0 0))",
    # the same stale Start, observed by a third caller between its Swap(true) and its Store(false)
    "D20-transient": "(svc (cfg ok absent absent absent 0) (thread (start 0) (wait)) (thread (start 0)) (thread (running)) (choices 1 0 0 0 0 0 0 3 3 3 3 3 3 4 3 3 3 3 3 3 3 3 3 0 0 1 0 0))",
}


# ---------------------------------------------------------------------------------------------
# the property, evaluated on a call log (independent of the Lean model)
# ---------------------------------------------------------------------------------------------
class Ev:
    def __init__(self, k, parts):
        self.k, self.parts = k, parts
        self.kind = parts[0]


def parse_log(obs):
    m = re.search(r"log=\[([^\]]*)\]", obs)
    if not m:
        return None
    evs = []
    for tok in m.group(1).split():
        k, rest = tok.split(":", 1)
        evs.append(Ev(int(k), rest.split(".")))
    return evs


def cfg_of(line):
    t = C.parse_sx(line)
    cfg = next(x for x in t[1:] if isinstance(x, list) and x and x[0] == "cfg")
    return dict(zip(PHASES, cfg[1:5])), (len(cfg) > 5 and cfg[5] != "0")


def must_ids(out):
    must = set()
    for ph in ("run", "shutdown", "cleanup"):
        if out[ph] == "err":
            must.add(ERR_ID[ph])
        if out[ph] == "panic" or (ph == "run" and out[ph] == "absent"):
            must.add(PANIC)        # a nil Run is called and panics in the Run goroutine
    return must


def check_log(out, evs):
    def before(k, pred):
        return any(e.k < k and pred(e) for e in evs)

    def ended_before(k, ph):
        return out[ph] == "absent" or before(k, lambda e: e.kind == "end" and e.parts[1] == ph)

    def phases_done(k):
        return all(ended_before(k, ph) for ph in ("run", "shutdown", "cleanup"))

    begs = {ph: [e for e in evs if e.kind == "beg" and e.parts[1] == ph] for ph in PHASES}
    for ph in PHASES:
        if len(begs[ph]) > 1:
            return f"{ph} function invoked {len(begs[ph])} times"
        if out[ph] == "absent" and begs[ph]:
            return f"{ph} ran although it is not configured"
    start_parents = {e.parts[4] for e in evs if e.kind == "call" and e.parts[3] == "start"}
    for e in begs["shutdown"]:
        ctx_ended = (out["run"] == "absent" or before(e.k, lambda x: x.kind == "end" and x.parts[1] == "run")
                     or before(e.k, lambda x: x.kind == "call" and x.parts[3] == "close")
                     or before(e.k, lambda x: x.kind == "cancel" and x.parts[1] in start_parents))
        if not ctx_ended:
            return f"Shutdown began at {e.k} before the service context ended (Run had not returned, no Close, no parent cancel)"
    for e in begs["cleanup"]:
        if not ended_before(e.k, "run"):
            return f"Cleanup began at {e.k} before Run returned"
        if not ended_before(e.k, "shutdown"):
            return f"Cleanup began at {e.k} before Shutdown returned"
    for e in begs["handler"]:
        if len(e.parts) <= 2 or "nilaggregate" in e.parts:
            return "ErrorHandler was called with a nil/empty aggregate"
        if not phases_done(e.k):
            return f"ErrorHandler began at {e.k} before Run/Shutdown/Cleanup had returned"
    for e in evs:
        if e.kind == "end" and not before(e.k, lambda x, p=e.parts[1]: x.kind == "beg" and x.parts[1] == p):
            return f"{e.parts[1]} ended without having begun"
    rets = [e for e in evs if e.kind == "ret"]
    calls = {(e.parts[1], e.parts[2]): e for e in evs if e.kind == "call"}
    must = must_ids(out)
    nil_starts = sum(1 for e in rets if e.parts[3] == "nil" and (e.parts[1], e.parts[2]) in calls
                     and calls[(e.parts[1], e.parts[2])].parts[3] == "start")
    if nil_starts > 1:
        return f"{nil_starts} Start calls returned nil"
    for e in rets:
        val = e.parts[3]
        call = calls.get((e.parts[1], e.parts[2]))
        if call is None:
            return f"return {'.'.join(e.parts)} without a call"
        op = call.parts[3]
        if op == "start":
            if val == "nil":
                pass
            elif val == "returned":
                if not phases_done(e.k):
                    return f"Start reported ErrServiceReturned at {e.k} before Run/Shutdown/Cleanup had returned"
            elif val != "already":
                return f"Start returned {val}"
        elif op == "wait" and val == "res":
            ids = {int(x) for x in e.parts[4:]}
            if not phases_done(e.k):
                missing = [ph for ph in ("run", "shutdown", "cleanup") if not ended_before(e.k, ph)]
                return f"Wait returned at {e.k} before {'/'.join(missing)} had returned"
            if not must <= ids:
                return f"Wait's result does not satisfy errors.Is for {sorted(must - ids)} (has {sorted(ids)})"
            if not must and ids:
                return f"Wait's result is {sorted(ids)} although no phase failed"
        elif op == "wait" and val != "notstarted":
            return f"Wait returned {val}"
        elif op == "running" and val == "running1":
            if before(call.k, lambda x: x.kind == "ret" and x.parts[3] == "res"):
                return f"Running() called at {call.k}, after a Wait had returned, is true"
    nstart = sum(1 for c in calls.values() if c.parts[3] == "start")
    if len(rets) == len(calls) and nstart >= 1 and nil_starts != 1:
        return f"{nstart} Start calls all returned but {nil_starts} of them returned nil"
    return None


LEGIT_BLOCK = {"rg@phase.run", "sd@shutdown.entry", "eh@handler.entry"}


def predicate(line, obs, allow_known=False):
    if obs.startswith("PANIC") or obs.startswith("bad"):
        return "harness error: " + obs[:160]
    m = re.search(r"TIMEOUT\([^)]*\)", obs)
    if m:
        return f"an actor that had to move did not: {m.group(0)} (hang / deadlock)"
    out, blocks = cfg_of(line)
    evs = parse_log(obs)
    if evs is None:
        return "no call log in the observation: " + obs[-120:]
    why = check_log(out, evs)
    if why:
        return why
    if line.startswith("(svc "):
        m = re.search(r"final blocked=\[([^\]]*)\]", obs)
        blocked = [b for b in m.group(1).split(",") if b] if m else []
        gor = [b for b in blocked if b[0] != "t"]
        for b in gor:
            if b not in LEGIT_BLOCK:
                return f"at quiescence service goroutine {b} is stuck"
        if "rg@phase.run" in gor:
            nil_ret = next((e for e in evs if e.kind == "ret" and e.parts[3] == "nil"), None)
            if not blocks:
                return "Run (which returns on its own) is stuck"
            if nil_ret is not None:
                starter = next(e for e in evs if e.kind == "call" and e.parts[1:3] == nil_ret.parts[1:3])
                if any(e.kind == "cancel" and e.parts[1] == starter.parts[4] for e in evs):
                    return "the parent context was cancelled but Run never saw its context end"
                if any(e.kind == "call" and e.parts[3] == "close" and e.k > nil_ret.k for e in evs):
                    return "Close was called after Start returned but the service never ended"
        elif gor:
            return f"Run has returned but service goroutines are stuck: {gor}"
        for b in blocked:
            if b[0] == "t" and not (b.endswith("@Wait.started") and gor):
                return f"at quiescence caller {b} is stuck"
    return None


# ---------------------------------------------------------------------------------------------
# model side: T-sched cases are replayed as they are; logs go to the model's allowedLog
# ---------------------------------------------------------------------------------------------
def model_case(line, io):
    if line.startswith("(svc "):
        return line
    evs = parse_log(io or "")
    if evs is None:
        return line
    t = C.parse_sx(line)
    cfg = next(x for x in t[1:] if isinstance(x, list) and x and x[0] == "cfg")
    if len(cfg) == 5:
        cfg = cfg + [0]
    return C.sx(["svclog", cfg] + [[e.k] + e.parts for e in evs])


def agree(line, io, mo):
    if line.startswith("(svc "):
        return io == mo
    return mo == "allowed"


def nontrivial(line, obs):
    return obs is not None and ".nil" in obs and "beg." in obs


def features(line, obs):
    kind = line[1:line.index(" ")]
    f = ["kind:" + kind]
    out, blocks = cfg_of(line)
    for ph in PHASES:
        f.append(f"{ph}:{out[ph]}")
    if kind == "svcmatrix":
        t = C.parse_sx(line)
        f.append(f"end:{t[2]}/{t[3]}")
    else:
        n = line.count("(thread")
        f.append("threads:" + ("1" if n == 1 else "2-4" if n <= 4 else "5-8" if n <= 8 else "9-16"))
        f.append(f"blocks:{int(blocks)}")
    if obs:
        for k in ("ret:already", "ret:returned", "ret:notstarted", "ret:nil", "at:Start.rechecked", "at:Running.checked",
                  ".already", ".returned", ".notstarted", "beg.handler", "TIMEOUT"):
            if k in obs:
                f.append("obs:" + k.lstrip(".").replace("ret:", "").replace("at:", ""))
        if kind == "svc":
            f.append("final:" + ("quiet" if "final blocked=[]" in obs else "blocked"))
            # Run's whole deferred chain ran while a starter was still inside doStart.Do
            if re.search(r"rg=gone[^;]*; [^;]*(; [^;]*)*t\d+=at:Start.started", obs):
                f.append("obs:run-finished-before-start-returned")
    return f


def shrink(line, fails):
    return SL.shrink_choices(line, fails) if line.startswith("(svc ") else line


def classify(line, obs, why):
    # one report per kind of failure
    return re.sub(r"\d+", "N", why)[:60]
