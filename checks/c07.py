"""C07 — pubsub.Queue and pubsub.Deque under deterministic schedules (T-sched); see queueref.py / dequeref.py for the oracles."""
from . import common as C
from . import schedlog as SL
from . import queueref as Q
from . import dequeref as D

PROP = "C07"
LEVEL = "proof"
MIX = {"roles": ["bproducer", "waiter", "waiter", "consumer", "producer", "bproducer"], "close": 0.4}
RULE = ("2-5 logical threads over one Queue (unlimited, or hard limit<=6 with soft quota and burst credit) with programs drawn "
        "from the role mix " + str(MIX["roles"]) + "; schedules are seeded choice lists among the enabled atomic segments "
        "{start, resume-after-wake, cancel, helper-fire}; every schedule is replayed action by action on the Lean model "
        "(observations and enabled sets must agree) and checked by the sequential reference queue. Non-trivial: some "
        "operation parked and something was woken; distinct = distinct case lines.")
TRUSTED = ["sync.Mutex / sync.Cond (FIFO wake-up) / context modelled", "the verif hooks in pubsub/queue.go mark the segment "
           "boundaries (MANIFEST.hooks)", "burst credit is a float64: the executable model uses Lean's IEEE Float"]
ASSUMPTIONS = ["segments are atomic (they run under q.mu / dq.mtx)"]
DMIX = {"roles": ["bproducer", "waiter", "waiter", "consumer", "producer", "bproducer", "forcer"], "close": 0.25, "bounded": False}
RULE += (" Deque half: the same over one pubsub.Deque (unlimited / capacity / queue-options tracker) with the role mix " + str(DMIX["roles"]) +
         " and the schedule shapes {burst of pushes before any waiter runs, waiters first, pop racing push, close racing wait, cancel "
         "racing park, WaitPush on a full deque, mixed ends} with 1-3 consumers and 1-2 producers on both ends; the log ends when only "
         "re-parking resumes (the Signal-before-Wait ping-pong) are left; oracle: checks/dequeref.py.")
TRUSTED = TRUSTED + ["the verif hooks in pubsub/deque.go"]


def gen(rng, tier, open_keys):
    n = 500 if tier == "quick" else 40000
    out = [Q.gen_case(rng, MIX) for _ in range(n)]
    out += [D.gen_case(rng, DMIX) for _ in range(n)]
    out += [D.gen_shape(rng) for _ in range(2 * n)]
    return out


def corpus():
    return ["(dqprobe wait)", "(dqprobe wpush)", "(dqprobe iter)",
            "(deque (cfg unlimited) (thread (pushf 1) (pushb 2) (close)) (thread (waitf) (waitb) (waitf)) (thread (biter 0) (biter 0) (biter 0)) (choices 1 1 0 0 1 1 0 0 0 0 0 0 0 0))",
            "(deque (cfg cap 2) (thread (wpushb 1) (wpushb 2) (wpushb 3) (len)) (thread (popf) (waitf)) (choices 0 0 0 0 0 0 0 0))",
            # D1: WaitFront on a non-empty deque; D2: push into an empty deque with a WaitBack waiter; D3: Close with blocked waiters
            "(deque (cfg unlimited) (thread (pushb 1) (pushb 2)) (thread (waitf) (waitf)) (choices 0 0 0 0))",
            "(deque (cfg unlimited) (thread (waitb)) (thread (pushf 1)) (choices 0 0))",
            "(deque (cfg cap 1) (thread (waitf)) (thread (waitb)) (thread (pushb 1) (wpushb 2)) (thread (close)) (choices 0 0 0 0 1))",
           ] + ["(queue (cfg soft 3 1 2 1) (thread (add 1)) (thread (badd 2)) (thread (next 0) (next 0)) (thread (add 3)) (choices 0 0 0 0 0))",
            "(qprobe wait)", "(qprobe badd)", "(queue (cfg unlimited) (thread (add 1) (add 2) (close)) (thread (wait) (wait) (wait)) (thread (next 0) (next 0) (next 0)) (choices 1 1 0 0 1 1 0 0 0 0 0 0 0 0))",
            "(queue (cfg soft 2 1 1 1) (thread (badd 1) (badd 2) (badd 3) (len)) (thread (remove) (wait)) (choices 0 0 0 0 0 0 0 0))"]


def is_deque(line):
    return line.startswith("(deque") or line.startswith("(dqprobe")


def predicate(line, obs, allow_known=False):
    return D.full_predicate(line, obs) if is_deque(line) else Q.full_predicate(line, obs)


def features(line, obs):
    return D.features(line, obs) if is_deque(line) else Q.features(line, obs)


def nontrivial(line, obs):
    return D.nontrivial(line, obs) if is_deque(line) else Q.nontrivial(line, obs)


def shrink(line, fails):
    return line if "probe" in line else SL.shrink_choices(line, fails)


def classify(line, obs, why):
    return None
