"""Reference (sequence-level) semantics of dt.List / dt.Stack / dt.Heap as C16/C17 state them, used
both by the generators (to pick meaningful handles) and by the property oracle (to decide whether
an implementation observation violates the property). Independent of the Lean model."""
import functools


def lt_of(c):
    if c == "gt":
        return lambda a, b: a > b
    if c == "key":
        return lambda a, b: (a + 1000) // 10 < (b + 1000) // 10
    return lambda a, b: a < b


class Elem:
    def __init__(self, val, ok=True):
        self.val, self.ok, self.owner, self.is_root = val, ok, None, False
        self.stale = False      # detached: its next/prev pointers are not specified


class RList:
    def __init__(self):
        self.xs = []
        self.root = Elem(0, ok=False)
        self.root.is_root, self.root.owner = True, self


class Item:
    def __init__(self, val, ok=True):
        self.val, self.ok, self.owner, self.sentinel_of = val, ok, None, None


class RStack:
    def __init__(self):
        self.xs = []            # top first
        self.sentinel = None    # created lazily; .owner tells whether In(stack) holds


class Unspecified(Exception):
    """the reference semantics does not constrain the rest of this case"""


class Ref:
    def __init__(self):
        self.lists, self.stacks, self.elems, self.items = [], [], [], []
        self.heap, self.heap_lt = None, None

    # ---- helpers -----------------------------------------------------------------------
    def L(self, a): return self.lists[int(a[1:])]
    def S(self, a): return self.stacks[int(a[1:])]
    def E(self, a): return None if a == "nil" else self.elems[int(a[1:])]
    def I(self, a): return None if a == "nil" else self.items[int(a[1:])]

    def regE(self, e):
        self.elems.append(e); return f"e{len(self.elems) - 1}"

    def regI(self, e):
        self.items.append(e); return f"i{len(self.items) - 1}"

    def sentinel(self, s, by_pop=False):
        if s.sentinel is None:
            s.sentinel = Item(0, ok=False)
            s.sentinel.sentinel_of = s
            s.sentinel.owner = None if by_pop else s
        return s.sentinel

    def stable_sort(self, xs, lt):
        return sorted(xs, key=functools.cmp_to_key(lambda a, b: -1 if lt(a.val, b.val) else (1 if lt(b.val, a.val) else 0)))

    # ---- one operation: returns the expected result string --------------------------------
    def step(self, op):
        r = self.step1(op)
        for s in self.stacks:       # the dump that follows every op walks from Head(), which initialises lazily
            self.sentinel(s)
        return r

    def step1(self, op):
        k, a = op[0], op[1:]
        if k == "newlist":
            self.lists.append(RList()); return f"L{len(self.lists) - 1}"
        if k == "newstack":
            self.stacks.append(RStack()); return f"S{len(self.stacks) - 1}"
        if k == "nspop":
            s = RStack(); self.stacks.append(s)
            return self.regI(self.sentinel(s))
        if k == "le":
            return self.regE(Elem(int(a[0])))
        if k in ("pf", "pb"):
            l = self.L(a[0]); e = Elem(int(a[1])); e.owner = l
            l.xs.insert(0, e) if k == "pf" else l.xs.append(e)
            return "ok"
        if k in ("popf", "popb"):
            l = self.L(a[0])
            if not l.xs:
                z = Elem(0, ok=False); z.stale = True
                return self.regE(z)
            e = l.xs.pop(0) if k == "popf" else l.xs.pop()
            e.owner, e.stale = None, True
            return self.regE(e)
        if k in ("front", "back"):
            l = self.L(a[0])
            return self.regE((l.xs[0] if k == "front" else l.xs[-1]) if l.xs else l.root)
        if k in ("next", "prev"):
            e = self.E(a[0])
            if e is None:
                raise Unspecified()
            if e.owner is None:
                # an element that was never in a list has nil links ("always non-nil, *unless* the element
                # is not a member of a list"): the handle that comes back is nil. A popped or removed
                # element keeps its old links: not specified.
                if getattr(e, "stale", False) or e.is_root or not e.ok:
                    raise Unspecified()
                return self.regE(None)
            l = e.owner
            if e.is_root:
                return self.regE((l.xs[0] if k == "next" else l.xs[-1]) if l.xs else l.root)
            i = index_of(l.xs, e) + (1 if k == "next" else -1)
            return self.regE(l.xs[i] if 0 <= i < len(l.xs) else l.root)
        if k == "app":
            e, n = self.E(a[0]), self.E(a[1])
            if e is None:
                raise Unspecified()
            if n is None or not n.ok or e.owner is None or n.owner is not None or n.is_root:
                return self.regE(e)          # rejected: nothing changes, the receiver comes back
            l = e.owner
            pos = 0 if e.is_root else index_of(l.xs, e) + 1
            l.xs.insert(pos, n); n.owner, n.stale = l, False
            return self.regE(n)
        if k in ("rm", "drop"):
            e = self.E(a[0])
            if e is None:
                raise Unspecified()
            removed = e.owner is not None and not e.is_root
            if removed:
                e.owner.xs.pop(index_of(e.owner.xs, e)); e.owner, e.stale = None, True
            if k == "drop":
                if removed:
                    e.val, e.ok = 0, False
                return "ok"
            return "1" if removed else "0"
        if k == "set":
            e = self.E(a[0])
            if e is None:
                return "0"
            if e.is_root:
                return "0"
            e.val, e.ok = int(a[1]), True
            return "1"
        if k == "swap":
            e, w = self.E(a[0]), self.E(a[1])
            if e is None:
                raise Unspecified()
            if w is None or e.owner is None or e.owner is not w.owner or e is w:
                return "0"
            if e.is_root or w.is_root:
                raise Unspecified()
            xs = e.owner.xs
            i, j = index_of(xs, e), index_of(xs, w)
            xs[i], xs[j] = xs[j], xs[i]
            return "1"
        if k == "ext":
            l, src = self.L(a[0]), self.L(a[1])
            if l is src:
                raise Unspecified()
            for e in src.xs:
                e.owner = l
            l.xs.extend(src.xs); src.xs = []
            return "ok"
        if k == "copy":
            l = self.L(a[0]); c = RList()
            for e in l.xs:
                n = Elem(e.val); n.owner = c; c.xs.append(n)
            self.lists.append(c); return f"L{len(self.lists) - 1}"
        if k in ("sortm", "sortq"):
            l = self.L(a[0]); l.xs = self.stable_sort(l.xs, lt_of(a[1])); return "ok"
        if k == "sorted":
            l = self.L(a[0]); lt = lt_of(a[1])
            return "1" if all(not lt(l.xs[i + 1].val, l.xs[i].val) for i in range(len(l.xs) - 1)) else "0"
        if k in ("iter", "riter"):
            l = self.L(a[0]); xs = [e.val for e in l.xs]
            return ",".join(map(str, xs if k == "iter" else xs[::-1]))
        if k in ("piter", "rpiter"):
            l = self.L(a[0]); xs = [e.val for e in l.xs]
            for e in l.xs:
                e.owner, e.stale = None, True
            l.xs = []
            return ",".join(map(str, xs if k == "piter" else xs[::-1]))
        if k == "json":
            return "[" + ",".join(str(e.val) for e in self.L(a[0]).xs) + "]"
        if k == "unjson":
            l = self.L(a[0])
            for v in a[1]:
                e = Elem(0 if v == "null" else int(v)); e.owner = l; l.xs.append(e)
            return "ok"
        if k == "heap":
            self.heap, self.heap_lt = [], lt_of(a[0]); return "ok"
        if k == "heapfrom":
            self.heap, self.heap_lt = [], lt_of(a[0])
            vals, kk = [int(v) for v in a[1]], int(a[2])
            for v in vals[:kk]:
                i = len(self.heap)
                while i > 0 and self.heap_lt(v, self.heap[i - 1]):
                    i -= 1
                self.heap.insert(i, v)
            return "ok" if kk >= len(vals) else "err"
        if k == "hpush":
            v = int(a[0]); i = len(self.heap)
            while i > 0 and self.heap_lt(v, self.heap[i - 1]):
                i -= 1
            self.heap.insert(i, v); return "ok"
        if k == "hpop":
            if not self.heap:
                return "0,0"
            return f"{self.heap.pop(0)},1"
        if k == "hiter":
            return f"{len(self.heap)}|" + ",".join(map(str, self.heap))
        # ---- stacks ------------------------------------------------------------------------
        if k == "si":
            return self.regI(Item(int(a[0])))
        if k == "push":
            s = self.S(a[0]); self.sentinel(s); it = Item(int(a[1])); it.owner = s; s.xs.insert(0, it); return "ok"
        if k == "spop":
            s = self.S(a[0])
            if not s.xs:
                return self.regI(self.sentinel(s, by_pop=True))
            it = s.xs.pop(0); it.owner = None
            return self.regI(it)
        if k == "head":
            s = self.S(a[0]); self.sentinel(s)
            return self.regI(s.xs[0] if s.xs else s.sentinel)
        if k == "snext":
            it = self.I(a[0])
            if it is None or it.owner is None or it.sentinel_of is not None:
                raise Unspecified()
            s = it.owner; i = index_of(s.xs, it) + 1
            return self.regI(s.xs[i] if i < len(s.xs) else s.sentinel)
        if k == "sapp":
            it, n = self.I(a[0]), self.I(a[1])
            if it is None:
                raise Unspecified()
            if n is None or it.owner is None or n.owner is not None or not n.ok or n.sentinel_of is not None:
                return self.regI(it)
            s = it.owner; s.xs.insert(0, n); n.owner = s
            return self.regI(n)
        if k == "srm":
            it = self.I(a[0])
            if it is None or it.owner is None or not it.ok:
                return "0"
            s = it.owner; s.xs.pop(index_of(s.xs, it)); it.owner = None
            return "1"
        if k == "sset":
            it = self.I(a[0])
            if it is None or it.sentinel_of is not None:
                raise Unspecified()
            it.val, it.ok = int(a[1]), True
            return "1"
        if k == "siter":
            return ",".join(str(i.val) for i in self.S(a[0]).xs)
        if k == "spiter":
            s = self.S(a[0]); xs = [i.val for i in s.xs]
            for i in s.xs:
                i.owner = None
            s.xs = []
            self.sentinel(s, by_pop=True)
            return ",".join(map(str, xs))
        if k == "sjson":
            s = self.S(a[0]); self.sentinel(s)
            return "[" + ",".join(str(i.val) for i in s.xs) + "]"
        if k == "sunjson":
            s = self.S(a[0]); self.sentinel(s)
            new = [Item(0 if v == "null" else int(v)) for v in a[1]]
            for it in new:
                it.owner = s
            s.xs = new + s.xs
            return "ok"
        raise ValueError(op)

    # ---- expected dump ------------------------------------------------------------------
    def dump(self):
        lp = []
        for l in self.lists:
            vs = [str(e.val) for e in l.xs]
            lp.append(f"{len(l.xs)}|{','.join(vs)}:end|{','.join(vs[::-1])}:end")
        sp = []
        for s in self.stacks:
            self.sentinel(s)        # the walk calls Head()
            sp.append(f"{len(s.xs)}|{','.join(str(i.val) for i in s.xs)}:end")
        ep = []
        for e in self.elems:
            if e is None:
                # Element.In: "Returns false when the element is nil"
                ep.append("nil/" + "0" * len(self.lists)); continue
            ins = "".join("1" if e.owner is l else "0" for l in self.lists)
            ep.append(f"{int(e.ok)}{e.val}/{ins}")
        ip = []
        for it in self.items:
            if it is None:
                ip.append("nil"); continue
            if it.sentinel_of is not None:
                ip.append("*")       # which stack a bottom sentinel reports is not part of the property
                continue
            ins = "".join("1" if it.owner is s else "0" for s in self.stacks)
            ip.append(f"{int(it.ok)}{it.val}/{ins}")
        return f"L[{' '.join(lp)}] S[{' '.join(sp)}] E[{' '.join(ep)}] I[{' '.join(ip)}]"


def index_of(xs, e):
    for i, x in enumerate(xs):
        if x is e:
            return i
    raise Unspecified()
