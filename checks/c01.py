"""C01 — parallel iterator stages deliver every item exactly once (and, with C04, the shared T-out
runner for the goroutine pipelines).

Tie: T-out — *behavioural at the boundary*. The Lean process models (FunModel/Pipe.lean) are hand
written from the constructors' goroutine/channel/wait-group/context structure; theorems are about
every schedule of those models. The real constructs are run under seeded schedule perturbation
(verif yield point fun.chan.before-select, varied GOMAXPROCS) and only the *outcome* is compared:
  * this module's `predicate` evaluates the property itself on the implementation's observation
    (independent oracle: multiset equality / order / no goroutine left / EOF reached);
  * the Lean driver evaluates the model's decidable `allowed cfg input outcome` on the same
    observation and, for tiny instances, checks that the observed outcome is one the model's
    exhaustive schedule enumeration produces;
  * a drift guard (tools/shapehash) compares a normalised hash and the call-chain shape of every
    modelled function with the values stored beside the model (lean/FunModel/Pipe.shapes.json).
A case: (pipe (construct c) (workers n) (buf k) (input ..) (consumer behaviour [k]) (seed s) (procs p))."""
import time
import collections, json, os, random, sys, time
from . import common as C

PROP = "C01"
LEVEL = "proof"
RULE = ("every construct {buffer, chain, mslices, msi, bchan, dtmap, adtmap | split, pp, pfe, worker, map, itmap, pbuf | merge, "
        "genpar, itgen, chanread} x input length {0,1,2,3,7,64 (thorough: ..1000)} x workers 1..4 (thorough 1..8; pbuf 0..) x "
        "buffer 0..2 where the construct has one x perturbation seeds (seed 0 = no perturbation) x GOMAXPROCS {1,2,4,8}; inputs "
        "mix distinct values and duplicates; consumer = exhaust (C01) / exhaust, close k, cancel k, close-then-cancel k with "
        "k<=8, blocked-then-close, blocked-then-cancel, abandon one Split output (C04). Non-trivial: input length >= 2; "
        "distinct = distinct case lines.")
TRUSTED = ["T-out: the tie between FunModel/Pipe.lean and the Go constructors is behavioural at the boundary (outcomes under "
           "seeded schedule perturbation), not step-by-step; the runtime's scheduler decides which interleavings are exercised",
           "drift guard tools/shapehash (go/ast) over the functions listed in lean/FunModel/Pipe.spec.txt",
           "the runtime-primitive model of DESIGN §3: channels (rendezvous / buffered FIFO / close, send on closed -> recovered "
           "panic -> io.EOF), context cancellation propagating to derived contexts, sync.Once, wait-group, go",
           "runtime.Stack as the observation of live goroutines"]
ASSUMPTIONS = ["user functions (processor, transform, generator, source iterator) return without blocking forever and respect "
               "their context when they block", "nothing aborts the run for C01: no processing error, no cancellation, no early Close"]
MODULES = ["C01"]

FEEDER = ["buffer", "chain", "mslices", "msi", "bchan", "dtmap", "adtmap"]
FANOUT = ["split", "pp", "pfe", "worker", "map", "itmap", "pbuf"]
FANIN = ["merge", "genpar", "itgen", "chanread"]
ORDERED_ALWAYS = {"buffer", "chain", "mslices", "msi", "bchan"}       # Feeder shape with a sequential source
ORDERED_SINGLE = {"split", "pp", "pfe", "worker", "map", "itmap", "pbuf", "merge", "genpar", "itgen", "chanread"}
NO_BLOCKED = {"mslices", "dtmap", "adtmap", "bchan", "pp", "pfe", "worker", "chanread"}
KEY_D25 = "Split:first-advanced-output-abandoned"


# ---------------- case construction -----------------------------------------------------------
RAW_OK = ("pp", "pfe", "worker", "map", "itmap", "genpar", "itgen")
_raw_rng = __import__("random").Random(20260928)


BADOPTS_OK = ("map", "itmap", "pp", "pfe", "worker", "genpar", "itgen")      # constructs that take WorkerGroupConf options
NO_CLOSE_DURING_FIRST = {"bchan", "pp", "pfe", "worker", "chanread"}            # no output iterator with background goroutines


def mk(construct, workers, buf, inp, cons, seed, procs, badopts=False):
    extra = []
    if construct in RAW_OK and workers == 1 and seed and seed % 7 == 0:
        # every seventh single-worker case installs the count through WorkerGroupConfSet with a value
        # below 1 ("all worker counts": such values are documented to become 1); model and oracle see 1
        extra = [["rawworkers", -(seed % 3)]]
    return C.sx(["pipe", ["construct", construct], ["workers", workers]] + extra + [["buf", buf], ["input"] + list(inp),
                 ["consumer"] + list(cons)] + ([["badopts", 1]] if badopts else []) + [["seed", seed], ["procs", procs]])


def cfg_of(line):
    t = C.parse_sx(line)
    d = {}
    for a in t[1:]:
        d[a[0]] = a[1:]
    return {"construct": d["construct"][0], "workers": int(d["workers"][0]), "buf": int(d["buf"][0]),
            "input": [int(x) for x in d.get("input", [])], "behaviour": d["consumer"][0],
            "k": int(d["consumer"][1]) if len(d["consumer"]) > 1 else 0,
            "seed": int(d["seed"][0]), "procs": int(d["procs"][0]),
            "badopts": bool(d.get("badopts")) and int(d["badopts"][0]) != 0}


def shapes(tier):
    """(construct, workers, buf) combinations"""
    wmax = 4 if tier == "quick" else 8
    out = []
    for b in range(3):
        out.append(("buffer", 1, b)); out.append(("bchan", 1, b))
    for c in ("chain", "mslices", "msi"):
        for w in range(1, wmax + 1):
            out.append((c, w, 0))
    out += [("dtmap", 1, 0), ("adtmap", 1, 0)]
    for c in ("split", "pp", "pfe", "worker", "map", "itmap", "merge", "genpar", "itgen"):
        for w in range(1, wmax + 1):
            out.append((c, w, 0))
    for w in range(0, wmax + 1):
        out.append(("pbuf", w, 0))
    for w in range(1, wmax + 1):
        for b in range(3):
            out.append(("chanread", w, b))
    return out


def gen_input(rng, n):
    if n == 0:
        return []
    if rng.random() < 0.5:
        xs = list(range(1, n + 1))
        if rng.random() < 0.5:
            rng.shuffle(xs)
        return xs
    hi = max(2, n // 2)
    return [rng.randrange(0, hi) for _ in range(n)]


def lengths(tier):
    return [0, 1, 2, 3, 7, 64] if tier == "quick" else [0, 1, 2, 3, 7, 64, 200, 1000]


def seeds_for(rng, n):
    out = [0] if rng.random() < 0.15 else []
    while len(out) < n:
        out.append(rng.randrange(1, 1 << 40))
    return out


def gen(rng, tier, open_keys):
    nseeds = 8 if tier == "quick" else 50
    out = []
    for (c, w, b) in shapes(tier):
        for n in lengths(tier):
            for s in seeds_for(rng, nseeds if n < 1000 else max(4, nseeds // 5)):
                out.append(mk(c, w, b, gen_input(rng, n), ["exhaust"], s, rng.choice([1, 2, 4, 8])))
    rng.shuffle(out)
    return out


def corpus():
    return [mk("split", 3, 0, [1, 2, 3, 4, 5, 6, 7], ["exhaust"], 4, 2),
            mk("map", 4, 0, [5, 5, 5, 1], ["exhaust"], 9, 4),
            mk("pbuf", 0, 0, [1, 2, 3], ["exhaust"], 1, 1),
            mk("genpar", 3, 0, [], ["exhaust"], 3, 8),
            mk("buffer", 1, 2, [3, 1, 2], ["exhaust"], 7, 1),
            mk("merge0", 1, 0, [], ["exhaust"], 17, 2)]        # MergeIterators() of no inputs: ends, delivers nothing


# ---------------- the independent oracle --------------------------------------------------------
def parse_obs(obs):
    t = C.parse_sx(obs)
    if not isinstance(t, list) or not t or t[0] != "obs":
        return None
    d = {}
    for a in t[1:]:
        d[a[0]] = a[1:]
    return {"seen": [[int(x) for x in s] for s in d.get("seen", [])], "calls": [int(x) for x in d.get("calls", [])],
            "end": d.get("end", []), "after": (d.get("after") or ["none"])[0], "idem": (d.get("idem") or ["none"])[0],
            "ret": (d.get("ret") or ["none"])[0], "released": (d.get("released") or ["none"])[0],
            "closeerr": (d.get("closeerr") or ["none"])[0], "leak": d.get("leak", [])}


def ordered(cfg):
    c = cfg["construct"]
    if c in ORDERED_ALWAYS:
        return True
    if c == "pbuf":
        return cfg["workers"] <= 1
    return c in ORDERED_SINGLE and cfg["workers"] == 1


def sub_multiset(a, b):
    ca, cb = collections.Counter(a), collections.Counter(b)
    return all(cb[k] >= v for k, v in ca.items())


def delivery(cfg, o):
    """C01: nothing lost, duplicated or invented; order where the property constrains it."""
    inp = cfg["input"]
    flat = [x for s in o["seen"] for x in s]
    if not sub_multiset(flat, inp):
        extra = collections.Counter(flat) - collections.Counter(inp)
        return f"items delivered that the input does not contain (duplicated or invented): {sorted(extra.elements())[:8]}"
    if not sub_multiset(o["calls"], inp):
        extra = collections.Counter(o["calls"]) - collections.Counter(inp)
        return f"the user function was called with items the input does not contain / more than once: {sorted(extra.elements())[:8]}"
    beh = cfg["behaviour"]
    if cfg["badopts"]:
        # a rejected option set: the constructor closes its output / cancels its context; nothing may be delivered
        if flat:
            return f"items delivered although the option set was rejected: {flat[:8]}"
        return None
    complete = beh in ("exhaust", "blockedclose", "blockedcancel")
    if beh in ("close", "closecancel", "cancel") and len(o["seen"]) == 1 and cfg["k"] > len(inp) and cfg["construct"] not in ("pp", "pfe", "worker"):
        complete = True        # asked for more than there is: the run ends by exhaustion
    if complete and "hang" not in o["end"]:
        if collections.Counter(flat) != collections.Counter(inp):
            lost = collections.Counter(inp) - collections.Counter(flat)
            return f"items lost: input {len(inp)} items, delivered {len(flat)}; missing {sorted(lost.elements())[:8]}"
        if cfg["construct"] in ("map", "itmap", "genpar", "itgen") and collections.Counter(o["calls"]) != collections.Counter(inp):
            return f"user function calls {sorted(o['calls'])[:8]} differ from the input as a multiset"
    if ordered(cfg) and o["seen"]:
        s = o["seen"][0]
        if s != inp[:len(s)]:
            return f"order not preserved: consumer saw {s[:10]} but the input starts {inp[:len(s)][:10]}"
    return None


def termination(cfg, o, allow_known=False):
    """C04: EOF reached, no goroutine left, blocked consumer released, Close idempotent and non-blocking."""
    inp, beh, k, c = cfg["input"], cfg["behaviour"], cfg["k"], cfg["construct"]
    if "unsupported" in o["end"] or "bad-construct" in o["end"]:
        return "harness rejected the case: " + " ".join(o["end"])
    if "hang" in o["end"]:
        return f"consumer never finished (deadlock): end={o['end']} after receiving {sum(map(len, o['seen']))} of {len(inp)} items"
    if "other" in o["end"]:
        return f"ReadOne returned an unexpected error kind: end={o['end']}"
    if o["leak"]:
        return f"goroutines still alive inside the library after the consumer was done: {o['leak'][:4]}"
    n1 = len(o["seen"]) == 1
    if cfg["badopts"] and beh == "exhaust":
        if any(e != "eof" for e in o["end"]):
            return f"rejected option set: the consumer did not reach io.EOF at once: end={o['end']}"
        if c in ("pp", "pfe", "worker"):
            # observation (reported, not judged here: C04 is about termination): the worker returns
            # opts.ErrorResolver() and drops the configuration error, so `ret` is nil today
            if o["ret"] not in ("nil", "invalid"):
                return f"worker returned {o['ret']} with a rejected option set"
        elif o["closeerr"] != "invalid":
            return f"Close reported {o['closeerr']} instead of the configuration error (ers.ErrInvalidInput)"
    elif beh == "closeduringfirst":
        if o["released"] != "1":
            return f"the first advance did not return after the Close that landed inside it (released={o['released']}, end={o['end']})"
        if o["idem"] != "1":
            return "Close called during the first advance did not return"
        if o["after"] != "eof":
            return f"ReadOne after that Close returned {o['after']}, expected io.EOF"
        if o["end"][0] not in ("ctx", "eof", "stop"):
            return f"the first advance returned {o['end'][0]}"
        if sum(map(len, o["seen"])) > 1:
            return f"{sum(map(len, o['seen']))} items from one advance"
    elif beh == "exhaust":
        if c == "chanread":
            if "eof" not in o["end"] or any(e not in ("eof", "ctx") for e in o["end"]):
                return f"concurrent readers ended with {o['end']}"
        elif any(e != "eof" for e in o["end"]):
            return f"finite input did not lead to io.EOF: end={o['end']}"
        if c in ("pp", "pfe", "worker") and o["ret"] != "nil":
            return f"worker returned {o['ret']} on a failure-free run"
    elif beh in ("close", "closecancel"):
        if o["idem"] != "1":
            return "second Close did not return"
        if o["after"] != "eof":
            return f"ReadOne after Close returned {o['after']}, expected io.EOF"
        for s, e in zip(o["seen"], o["end"]):
            if e == "stop" and len(s) != k:
                return f"consumer stopped with {len(s)} items, asked for {k}"
            if e not in ("stop", "eof") and not (e == "ctx" and beh == "closecancel" and not n1):
                return f"consumer ended with {e} before Close"
            if e == "eof" and n1 and len(s) != len(inp):
                return f"io.EOF after {len(s)} of {len(inp)} items although nothing had been closed or cancelled"
        if n1 and len(o["seen"][0]) != min(k, len(inp)):
            return f"consumer received {len(o['seen'][0])} items, expected {min(k, len(inp))}"
    elif beh == "cancel":
        if c in ("pp", "pfe", "worker"):
            if o["ret"] not in ("nil", "ctx") and not (cfg["badopts"] and o["ret"] == "invalid"):
                return f"worker returned {o['ret']} after cancellation"
            if len(o["seen"][0]) < min(k, len(inp)):
                return f"only {len(o['seen'][0])} items processed before the cancellation at {k}"
        elif c == "bchan":
            if len(o["seen"][0]) != min(k, len(inp)):
                return f"channel consumer received {len(o['seen'][0])} items, expected {min(k, len(inp))}"
        else:
            if o["after"] not in ("ctx", "eof"):
                return f"ReadOne after cancellation returned {o['after']}"
            if any(e not in ("ctx", "eof") for e in o["end"]):
                return f"consumer ended with {o['end']} under cancellation"
            tot = sum(map(len, o["seen"]))
            if n1 and tot != min(k, len(inp)):
                return f"consumer received {tot} items, expected {min(k, len(inp))}"
            if not n1 and tot > k + len(o["seen"]):
                return f"{tot} deliveries after a cancellation at {k} with {len(o['seen'])} consumers"
            if n1 and o["end"][0] == "eof" and tot != len(inp):
                return f"io.EOF after {tot} of {len(inp)} items"
    elif beh in ("blockedclose", "blockedcancel"):
        if o["released"] != "1":
            return f"consumer parked in ReadOne was not released by {beh[7:]} (released={o['released']}, end={o['end']})"
        if beh == "blockedclose" and o["idem"] != "1":
            return "Close blocked while a consumer was parked in ReadOne"
        if o["end"][0] not in ("ctx", "eof"):
            return f"released consumer returned {o['end'][0]}"
    elif beh in ("abandonfirst", "abandonother"):
        pass
    else:
        return "unknown behaviour " + beh
    return None


ASPECTS = ("delivery",)


def predicate(line, obs, allow_known=False, aspects=None):
    aspects = aspects or ASPECTS
    if obs is None:
        return "implementation produced no output (crash or hang)"
    if obs.startswith("PANIC") or obs.startswith("bad"):
        return "implementation panicked / rejected the case: " + obs[:200]
    cfg, o = cfg_of(line), parse_obs(obs)
    if o is None:
        return "unparsable observation " + obs[:100]
    why = None
    if "delivery" in aspects:
        why = delivery(cfg, o)
        if why is None and ("hang" in o["end"] or "unsupported" in o["end"] or "bad-construct" in o["end"]):
            why = f"run did not finish: end={o['end']}"
        if why is None and cfg["behaviour"] == "exhaust" and cfg["construct"] != "chanread" and any(e != "eof" for e in o["end"]):
            why = f"run was cut short: end={o['end']}"
    if why is None and "termination" in aspects:
        why = termination(cfg, o, allow_known)
    return why


def classify(line, obs, why):
    cfg = cfg_of(line)
    if cfg["construct"] == "split" and cfg["behaviour"] == "abandonfirst" and "goroutines still alive" in (why or ""):
        return KEY_D25
    return None


def nontrivial(line, obs):
    return len(cfg_of(line)["input"]) >= 2


def features(line, obs):
    cfg = cfg_of(line)
    f = ["construct:" + cfg["construct"], "behaviour:" + cfg["behaviour"], "workers:%d" % cfg["workers"],
         "len:%d" % len(cfg["input"]), "procs:%d" % cfg["procs"], "perturbed:%d" % (cfg["seed"] != 0)]
    if cfg["construct"] in ("buffer", "bchan", "chanread"):
        f.append("buf:%d" % cfg["buf"])
    if cfg["behaviour"] in ("close", "cancel", "closecancel"):
        f.append("cut:%d" % cfg["k"])
    if cfg["badopts"]:
        f.append("badopts:" + cfg["construct"])
        if obs and "(ret nil)" in obs:
            f.append("badopts-config-error-not-returned")
    return f


def shrink(line, fails):
    cfg = cfg_of(line)

    def rebuild(c):
        cons = [c["behaviour"]] + ([c["k"]] if c["behaviour"] in ("close", "cancel", "closecancel") else [])
        return mk(c["construct"], c["workers"], c["buf"], c["input"], cons, c["seed"], c["procs"], c.get("badopts", False))
    budget = 40
    changed = True
    while changed and budget > 0:
        changed = False
        cands = []
        n = len(cfg["input"])
        if n > 0:
            cands.append(dict(cfg, input=cfg["input"][:n // 2]))
            cands.append(dict(cfg, input=cfg["input"][:n - 1]))
            cands.append(dict(cfg, input=list(range(1, n + 1))))
        if cfg["workers"] > (2 if cfg["behaviour"].startswith("abandon") else 1):
            cands.append(dict(cfg, workers=cfg["workers"] - 1))
        if cfg["buf"] > 0:
            cands.append(dict(cfg, buf=0))
        if cfg["k"] > 0:
            cands.append(dict(cfg, k=cfg["k"] - 1))
        for cand in cands:
            if cand == cfg:
                continue
            budget -= 1
            if fails(rebuild(cand)):
                cfg, changed = cand, True
                break
            if budget <= 0:
                break
    return rebuild(cfg)


# ---------------- drift guard ---------------------------------------------------------------------
def drift_guard():
    """returns (ok, message): compares tools/shapehash output on the current tree with the stored shapes"""
    tool = os.path.join(C.VERIF, "tools", "shapehash")
    spec = os.path.join(C.LEAN, "FunModel", "Pipe.spec.txt")
    stored_p = os.path.join(C.LEAN, "FunModel", "Pipe.shapes.json")
    with C.Lock("go"):
        for attempt in range(3):
            rc, out = C.sh(["go", "run", ".", "-repo", C.REPO, "-list", spec], cwd=tool, env=C.GOENV, timeout=600)
            if rc == 0 or ("cannot open file" not in out and "could not import" not in out and "no such file" not in out):
                break
            time.sleep(3)      # the shared Go build cache was trimmed under the build: try again
    if rc != 0:
        return False, "drift guard tool failed: " + out[-300:]
    try:
        cur = json.loads(out[out.index("{"):])
        stored = json.load(open(stored_p))
    except Exception as e:      # noqa
        return False, f"drift guard: cannot read shapes ({e})"
    changed = sorted(k for k in set(cur) | set(stored) if cur.get(k) != stored.get(k))
    if changed:
        how = []
        for k in changed[:6]:
            a, b = stored.get(k), cur.get(k)
            if a is None or b is None or b.get("hash") == "MISSING":
                how.append(k + " (missing)")
            elif a.get("shape") != b.get("shape"):
                how.append(k + " (call-chain shape changed)")
            else:
                how.append(k + " (body changed)")
        return False, ("the modelled source changed since FunModel/Pipe.lean was written against it: "
                       + ", ".join(how) + (" ..." if len(changed) > 6 else ""))
    return True, f"{len(cur)} modelled functions unchanged"


# ---------------- T-out runner ------------------------------------------------------------------
def judge_lines(cases, obs):
    return [f"(judge {c} {o})" if o is not None and o.startswith("(obs") else "(judge-none)" for c, o in zip(cases, obs)]


def run_tout(mod, tier, seed, replay=None):
    prop = mod.PROP
    t0 = time.time()
    rep = C.Report(prop)
    rng = random.Random(seed * 1000003 + sum(map(ord, prop)))
    findings = C.known_findings(prop)
    open_keys = {f["key"] for f in findings if f.get("status") == "open"}
    aspects = mod.ASPECTS

    # ---- proofs -----------------------------------------------------------------------------
    ok_build, build_out = C.lake_build([f"FunProps.{m}" for m in C.prop_modules(prop)] + ["driver"])
    names = C.theorem_names(prop)
    obligations, discharged, proof_broken, axioms = len(names), 0, None, {}
    if not ok_build:
        errs = [l for l in build_out.splitlines() if "error" in l]
        proof_broken = "lake build FunProps.%s failed: %s" % (prop, (errs[0] if errs else build_out[-300:])[:400])
    else:
        axioms, bad, _ = C.audit_axioms(prop, names)
        discharged = obligations - len(bad)
        if bad:
            proof_broken = "axiom audit failed: " + "; ".join(f"{n}: {a}" for n, a in bad)[:400]
        hits = C.grep_forbidden()
        if hits:
            proof_broken, discharged = "forbidden construct in Lean sources: " + hits[0], 0
        if obligations == 0:
            proof_broken = f"no property theorems found in FunProps/{prop}*.lean"
        if tier == "thorough" and proof_broken is None and os.environ.get("VERIF_NO_LEANCHECKER") != "1":
            okc, outc = C.leanchecker(prop)
            if not okc:
                proof_broken, discharged = "leanchecker rejected FunProps.%s: %s" % (prop, outc[-300:]), 0

    # ---- drift guard ----------------------------------------------------------------------------
    ok_drift, drift_msg = drift_guard()
    tie_broken = None if ok_drift else drift_msg

    # ---- correspondence -----------------------------------------------------------------------
    okh, hout, hbin = C.build_harness()
    if not okh:
        print(hout[-3000:])
        print(f"ERROR: the harness does not build against {C.REPO}")
        return 2
    if replay:
        cases = [l.strip() for l in open(replay) if l.strip().startswith("(")]
    else:
        # grouped by GOMAXPROCS so that the runtime is re-sized a handful of times, not per case
        cases = list(mod.corpus()) + sorted(mod.gen(rng, tier, open_keys), key=lambda l: cfg_of(l)["procs"])
    henv = dict(os.environ)
    henv.setdefault("VERIF_CASE_TIMEOUT_MS", "120000")      # the harness detects hangs itself (VERIF_HANG_DEADLINE_MS)
    hargs = [prop]
    impl, _, _ = C.run_lines(hbin, hargs, cases, timeout=3000, env=henv)
    have_driver = os.path.exists(C.driver_bin())
    verdicts = [None] * len(cases)
    if have_driver:
        verdicts, _, _ = C.run_lines(C.driver_bin(), [prop], judge_lines(cases, impl), timeout=3000)

    race_note = None
    if tier == "thorough" and not replay and os.environ.get("VERIF_NO_RACE") != "1":
        okr, rout, rbin = C.build_harness(race=True)
        if okr:
            import subprocess
            sub = cases[:min(len(cases), 6000)]
            renv = dict(henv, GORACE="halt_on_error=0")
            try:
                pr = subprocess.run([rbin] + hargs, input="\n".join(sub) + "\n", stdout=subprocess.PIPE, stderr=subprocess.PIPE,
                                    text=True, timeout=3000, env=renv)
                rout_lines, rerr = pr.stdout.splitlines(), pr.stderr
            except subprocess.TimeoutExpired as e:
                rout_lines, rerr = [], "TIMEOUT of the -race run"
            rimpl = (rout_lines + [None] * len(sub))[:len(sub)]
            reports = [r for r in rerr.split("==================") if "WARNING: DATA RACE" in r]
            # The closer goroutines of Map / MergeIterators / GenerateParallel close the channel on cancellation
            # while workers may still be inside ChanSend.Write: the send-on-closed path that Write recovers from
            # (model actions pSendClosed / wSendClosed). The race detector reports that close/send pair as a race on
            # the channel. It is not a violation of C01/C04 (it concerns C13-style race freedom) and is reported as an
            # observation; any other race report is a violation.
            def send_close(r):
                return ("runtime.chansend" in r and "runtime.closechan" in r and "ChanSend" in r and ".Close()" in r)
            other = [r for r in reports if not send_close(r)]
            if other or "TIMEOUT" in rerr or None in rimpl:
                idx = next((i for i, x in enumerate(rimpl) if x is None), 0)
                path = C.write_replay(prop, f"race-{seed}.txt", f"# property {prop}: data race / crash under -race\n{sub[idx]}\n"
                                      + "\n".join("# " + l for l in (other[0] if other else rerr[-1500:]).splitlines()[:60]) + "\n")
                rep.violation(path, "the -race build reported a data race or died on a case: "
                              + (other[0] if other else rerr[-200:]).replace("\n", " ")[:240])
            if len(reports) > len(other):
                rep.note("observation (-race build): close of the output channel races with a worker's ChanSend.Write on "
                         "Close/cancel (recovered send-on-closed path; Map, MergeIterators, GenerateParallel) - not a C01/C04 violation")
            for l, o in zip(sub, rimpl):        # the race build's observations are judged by the same oracle
                if o is not None:
                    w = mod.predicate(l, o)
                    if w and (mod.classify(l, o, w) not in open_keys):
                        path = C.write_replay(prop, f"race-violation-{seed}.txt", f"# property {prop} (-race build): {w}\n{l}\n# implementation: {o}\n")
                        rep.violation(path, "(-race build) " + w[:250])
                        break
            race_note = (f"{len(sub)} cases re-run under -race: {len(reports)} race report(s), {len(reports) - len(other)} of them the "
                         f"recovered send-on-closed close/send pair")
        else:
            rep.note("the -race harness did not build (cgo unavailable?): " + rout[-200:])

    # re-runs only shrink / confirm a failure the main pass established with the full deadlines
    renv_short = dict(henv, VERIF_HANG_DEADLINE_MS=os.environ.get("VERIF_RERUN_HANG_DEADLINE_MS", "10000"),
                      VERIF_LEAK_DEADLINE_MS=os.environ.get("VERIF_RERUN_LEAK_DEADLINE_MS", "5000"))

    def rerun(line, times):
        """re-run a case until it fails the oracle (schedule dependent failures) or `times` runs passed"""
        outs, batch = [], 1
        while len(outs) < times:
            outs += C.run_lines(hbin, hargs, [line] * min(batch, times - len(outs)), timeout=600, env=renv_short)[0]
            if any(mod.predicate(line, o) for o in outs):
                break
            batch *= 3
        return outs

    disagreements, pviol = [], []
    hist, distinct, samples = collections.Counter(), set(), []
    enum_hits = 0
    for line, io, vd in zip(cases, impl, verdicts):
        for k in mod.features(line, io):
            hist[k] += 1
        if mod.nontrivial(line, io):
            distinct.add(line)
        why = mod.predicate(line, io)
        if why:
            pviol.append((line, io, vd, why))
        elif have_driver:
            if vd is None or not vd.startswith("ok"):
                disagreements.append((line, io, vd))
            elif "enum=1" in vd:
                enum_hits += 1
    for line, io, vd in list(zip(cases, impl, verdicts))[:3]:
        samples.append({"case": line[:300], "impl": (io or "")[:300], "model": (vd or "")[:200]})

    # known findings: confirmation stream
    for f in findings:
        if f.get("status") != "open":
            continue
        wit = mod.known_witnesses().get(f["key"]) if hasattr(mod, "known_witnesses") else None
        if not wit:
            continue
        wenv = dict(henv, VERIF_LEAK_DEADLINE_MS=os.environ.get("VERIF_KNOWN_LEAK_DEADLINE_MS", "3000"))
        dump = os.path.join(C.WORK, prop, "known-goroutines.txt")
        os.makedirs(os.path.dirname(dump), exist_ok=True)
        if os.path.exists(dump):
            os.remove(dump)
        wenv["VERIF_LEAK_DUMP"] = dump
        wi, _, _ = C.run_lines(hbin, hargs, wit, timeout=600, env=wenv)
        still = [(w, o) for w, o in zip(wit, wi) if o is None or mod.predicate(w, o, allow_known=True)]
        if still:
            rep.known_finding(f"{f['key']}: {f['what']} (witness still fails: {still[0][0][:200]} -> {str(still[0][1])[:160]})")
        else:
            rep.note(f"known finding {f['key']} no longer reproduces on its witness")

    nviol, seen_keys = 0, set()
    for line, io, vd, why in pviol:
        key = mod.classify(line, io, why)
        if key in open_keys:
            continue
        sig = (key, cfg_of(line)["construct"], cfg_of(line)["behaviour"], why.split(":")[0][:40])
        if sig in seen_keys:
            continue
        seen_keys.add(sig)
        if nviol >= 5:
            break
        small = line
        if os.environ.get("VERIF_NO_SHRINK") != "1":
            def same_failure(l, key=key):
                for o in rerun(l, 12):
                    w = mod.predicate(l, o)
                    if w and mod.classify(l, o, w) == key:
                        return True
                return False
            small = mod.shrink(line, same_failure)
        outs = rerun(small, 12)
        bad = [(o, mod.predicate(small, o)) for o in outs]
        bad = [(o, w) for o, w in bad if w]
        io2, why2 = bad[0] if bad else (io, why)
        if not bad:
            small = line
        path = C.write_replay(prop, f"violation-{seed}-{nviol}.txt",
                              f"# property {prop}: {why2}\n# replay: ./check {prop} --replay <this file>   (schedule dependent: "
                              f"{len(bad)} of {len(outs)} re-runs failed)\n{small}\n# implementation: {io2}\n# model verdict:  {vd}\n")
        rep.violation(path, why2[:300])
        nviol += 1
    if nviol == 0 and (disagreements or proof_broken or tie_broken) and not replay:
        # a proof or the tie broke but no observation of this run violates the property: hunt for a failing
        # input with further seeds (boundary-biased generator of the same tier) before reporting
        # `no-failing-input-found`
        for extra in range(1, 4):
            hrng = random.Random((seed + 7919 * extra) * 1000003 + sum(map(ord, prop)))
            hcases = sorted(mod.gen(hrng, "quick", open_keys), key=lambda l: cfg_of(l)["procs"])
            himpl, _, _ = C.run_lines(hbin, hargs, hcases, timeout=3000, env=henv)
            found = [(l, o, mod.predicate(l, o)) for l, o in zip(hcases, himpl)]
            found = [(l, o, w) for l, o, w in found if w and mod.classify(l, o, w) not in open_keys]
            if found:
                l, o, w = found[0]
                path = C.write_replay(prop, f"violation-{seed}-hunt.txt",
                                      f"# property {prop}: {w}\n# replay: ./check {prop} --replay <this file>\n{l}\n# implementation: {o}\n")
                rep.violation(path, w[:300])
                nviol += 1
                break
    if nviol == 0 and (disagreements or proof_broken or tie_broken):
        what = [w for w in (proof_broken, tie_broken) if w]
        body_case = ""
        if disagreements:
            line, io, vd = disagreements[0]
            what.append(f"the model's `allowed` predicate rejects (or could not judge) {len(disagreements)} of {len(cases)} "
                        f"implementation outcomes that the independent oracle accepts: {str(vd)[:120]}")
            body_case = f"{line}\n# implementation: {io}\n# model verdict:  {vd}\n"
        path = C.write_replay(prop, f"broken-{seed}.txt", f"# property {prop}: " + " | ".join(what) + "\n" + body_case)
        rep.violation(path, " | ".join(what), found=False)

    cov = {
        "obligations": obligations, "discharged": discharged if ok_build else 0,
        "checker_cmd": f"cd lean && lake build FunProps.{prop} && lake env lean <#print axioms of each theorem>"
                       + (" && lake env leanchecker FunProps.%s" % prop if tier == "thorough" else ""),
        "trusted_base": C.TRUSTED_BASE + mod.TRUSTED, "theorems": names,
        "axioms_used": sorted({a for v in axioms.values() for a in v}),
        "evaluations": len(cases), "distinct_nontrivial": len(distinct), "rule": mod.RULE, "samples": samples,
        "input_distribution": dict(sorted(hist.items())),
        "traces_validated_against_impl": sum(1 for v in verdicts if v is not None and v.startswith("ok")),
        "outcomes_found_in_model_enumeration": enum_hits,
        "disagreements": len(disagreements), "property_predicate_failures": len(pviol),
        "impl_missing_outputs": sum(1 for i in impl if i is None),
        "drift_guard": drift_msg, "tie": "T-out (behavioural at the boundary) + drift guard",
    }
    if race_note:
        cov["race_build"] = race_note
    C.write_evidence(prop, tier, seed, mod.LEVEL, cov, mod.ASSUMPTIONS, time.time() - t0, len(rep.violations))
    print(f"{prop}: theorems {cov['discharged']}/{obligations} checked; drift guard: {drift_msg}; {len(cases)} cases, "
          f"{cov['traces_validated_against_impl']} allowed by the model ({enum_hits} matched against the model's enumerated "
          f"outcome set), {len(disagreements)} disagree, {len(pviol)} property failures; {time.time()-t0:.1f}s")
    return rep.finish()


def main(tier, seed, replay=None):
    return run_tout(sys.modules[__name__], tier, seed, replay)
