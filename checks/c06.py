"""C06 — pubsub.Deque under deterministic schedules (T-sched); see dequeref.py for the oracle."""
from . import common as C
from . import schedlog as SL
from . import dequeref as D

PROP = "C06"
LEVEL = "proof"
MIX = {"roles": ["producer", "consumer", "mixed", "producer", "consumer"], "close": 0.18}
MIX2 = {"roles": ["producer", "consumer", "mixed", "forcer", "bproducer", "popper", "waiter", "pusher"], "close": 0.15, "shuffle": True}
RULE = ("2-5 logical threads over one Deque (unlimited / capacity 1-4 / queue-options tracker with hard limit<=6, soft quota, "
        "burst credit) running PushFront/Back, ForcePushFront/Back, PopFront/Back, WaitFront/Back, WaitPushFront/Back, Len, Close; "
        "programs drawn from role mixes " + str(MIX["roles"]) + " and (shuffled) " + str(MIX2["roles"]) + " plus the C07 schedule "
        "shapes; schedules are seeded choice lists among the enabled atomic segments {start, resume-after-wake, cancel, helper-fire}; "
        "every schedule is replayed action by action on the Lean model (observations and enabled sets must agree) and checked by the "
        "sequential reference deque; (dequeopts ...) cases compare NewDeque/Validate with the decision table. Non-trivial: some "
        "operation parked and something was woken; distinct = distinct case lines.")
TRUSTED = ["sync.Mutex / sync.Cond (FIFO wake-up) / context modelled", "the verif hooks in pubsub/deque.go mark the segment "
           "boundaries (MANIFEST.hooks)", "burst credit is a float64: the executable model uses Lean's IEEE Float",
           "the pointer splices of addAfter/pop are modelled as list operations (plus the stale links of removed elements); "
           "this step is tied to the code only by the correspondence run"]
ASSUMPTIONS = ["segments are atomic (they run under dq.mtx)"]


def gen(rng, tier, open_keys):
    n = 1200 if tier == "quick" else 40000
    out = [D.gen_case(rng, MIX) for _ in range(n)]
    out += [D.gen_case(rng, MIX2) for _ in range(n // 2)]
    out += [D.gen_shape(rng) for _ in range(n // 3)]
    out += [D.gen_opts(rng) for _ in range(60 if tier == "quick" else 600)]
    out += [D.gen_stress(rng, tier) for _ in range(12 if tier == "quick" else 60)]
    return out


def corpus():
    return [
        "(deque (cfg unlimited) (thread (pushf 1) (pushb 2) (close)) (thread (waitf) (waitb) (waitf)) (thread (biter 0) (biter 0) (biter 0)) (choices 1 1 0 0 1 1 0 0 0 0 0 0 0 0))",
        "(deque (cfg cap 2) (thread (wpushb 1) (wpushb 2) (wpushb 3) (len)) (thread (popf) (waitf)) (choices 0 0 0 0 0 0 0 0))",
        "(deque (cfg cap 2) (thread (fpushb 1) (fpushb 2) (fpushb 3) (fpushf 4) (len)) (thread (waitf) (waitb)) (thread (waitf)) (choices 1 1 3 0 0 0 0 0))",
        "(deque (cfg soft 3 1 2 1) (thread (pushb 1) (pushb 2) (pushb 3) (pushb 4) (fpushb 5) (len)) (thread (riter 0) (riter 0) (iter 0)) (choices 0 1 0 1 0 1))",
        "(dequeopts 1 0 nil)", "(dequeopts 1 3 nil)", "(dequeopts 0 -3 nil)", "(dequeopts 0 0 (q 3 0 0 1))",
        "(dequeopts 0 -1 (q 3 5 0 1))", "(dequeopts 0 -1 (q 3 2 0 1))", "(dequeopts 1 -1 nil)", "(dequeopts 1 0 (q 3 2 0 1))",
    ]


def predicate(line, obs, allow_known=False):
    return D.full_predicate(line, obs)


features = D.features
nontrivial = D.nontrivial


def shrink(line, fails):
    return line if not line.startswith("(deque ") else SL.shrink_choices(line, fails)


def classify(line, obs, why):
    return None


def conclusive(line):
    return line.startswith("(dstress")
