"""Generic runner for properties decided by: Lean theorems about an executable model (lake build +
axiom audit) + differential correspondence of that model with the implementation on generated cases
(T-diff / T-sched / T-out all use this; they differ in what a case line means)."""
import collections, json, os, random, time
from . import common as C


def run(mod, tier, seed, replay=None):
    prop = mod.PROP
    t0 = time.time()
    rep = C.Report(prop)
    rng = random.Random(seed * 1000003 + sum(map(ord, prop)))
    findings = C.known_findings(prop)
    open_keys = {f["key"] for f in findings if f.get("status") == "open"}

    # ---- proofs -------------------------------------------------------------------------
    ok_gen, gen_out = C.regenerate()
    if not ok_gen:
        # go2lean writes a non-compiling file for a target it cannot translate and still exits 0: a
        # non-zero exit is the Go toolchain failing to build/run the translator, not a verdict
        print(gen_out[-2000:])
        print("ERROR: tools/go2lean could not be built/run (Go toolchain failure, not a property verdict)")
        return 2
    ok_build, build_out = C.lake_build([f"FunProps.{m}" for m in C.prop_modules(prop)] + ["driver"])
    names = C.theorem_names(prop)
    obligations = len(names)
    discharged = 0
    proof_broken = None
    axioms = {}
    if not ok_gen:
        proof_broken = "T-gen translator could not translate the current source: " + gen_out.strip().splitlines()[-1][:300]
    elif not ok_build:
        errs = [l for l in build_out.splitlines() if "error" in l]
        proof_broken = "lake build FunProps.%s failed: %s" % (prop, (errs[0] if errs else build_out[-300:])[:400])
    else:
        axioms, bad, _ = C.audit_axioms(prop, names)
        discharged = obligations - len(bad)
        if bad:
            proof_broken = "axiom audit failed: " + "; ".join(f"{n}: {a}" for n, a in bad)[:400]
        hits = C.grep_forbidden()
        if hits:
            proof_broken = "forbidden construct in Lean sources: " + hits[0]
            discharged = 0
        if tier == "thorough" and proof_broken is None and os.environ.get("VERIF_NO_LEANCHECKER") != "1":
            okc, outc = C.leanchecker(prop)
            if not okc:
                proof_broken = "leanchecker rejected FunProps.%s: %s" % (prop, outc[-300:])
                discharged = 0

    # ---- correspondence -----------------------------------------------------------------
    okh, hout, hbin = C.build_harness()
    if not okh:
        print(hout[-3000:])
        print(f"ERROR: the harness does not build against {C.REPO}")
        return 2
    if replay:
        cases = [l.strip() for l in open(replay) if l.strip().startswith("(")]
    else:
        cases = list(getattr(mod, "corpus", lambda: [])()) + mod.gen(rng, tier, open_keys)
    henv = dict(os.environ, **getattr(mod, "HARNESS_ENV", {}))
    henv.setdefault("VERIF_CASE_TIMEOUT_MS", "20000" if tier == "quick" else "40000")
    henv.setdefault("VERIF_SCHED_TIMEOUT_MS", "10000" if tier == "quick" else "20000")
    hargs = [prop] + getattr(mod, "HARNESS_ARGS", [])
    impl, rc_i, err_i = C.run_lines(hbin, hargs, cases, timeout=getattr(mod, "TIMEOUT", 900), env=henv)
    have_driver = os.path.exists(C.driver_bin())
    # optional per-module hooks: `model_case(line, impl_obs)` = the line the model is asked (default: the
    # case itself; T-out checks hand the implementation's log to the model's decidable predicate) and
    # `agree(line, impl_obs, model_obs)` (default: equality)
    model_case = getattr(mod, "model_case", lambda line, io: line)
    agree = getattr(mod, "agree", lambda line, io, mo: io == mo)
    if have_driver:
        model, rc_m, err_m = C.run_lines(C.driver_bin(), [prop], [model_case(l, io) for l, io in zip(cases, impl)],
                                         timeout=900)
    else:
        model = [None] * len(cases)

    def recheck(line):
        i2, _, _ = C.run_lines(hbin, hargs, [line], timeout=300, env=henv)
        m2 = [None]
        if have_driver:
            m2, _, _ = C.run_lines(C.driver_bin(), [prop], [model_case(line, i2[0])], timeout=300)
        return i2[0], m2[0]

    disagreements, pviol = [], []
    hist = collections.Counter()
    distinct = set()
    samples = []
    skipped_after_timeouts = 0
    for line, io, mo in zip(cases, impl, model):
        if io == "TIMEOUT-SKIP":
            # the harness stopped running scheduler cases after repeated hangs (already reported)
            skipped_after_timeouts += 1
            continue
        for k in mod.features(line, io):
            hist[k] += 1
        if mod.nontrivial(line, io):
            distinct.add(line)
        why = mod.predicate(line, io) if io is not None else "implementation produced no output (crash or hang)"
        if why:
            pviol.append((line, io, mo, why))
        elif have_driver and not agree(line, io, mo):
            disagreements.append((line, io, mo))
    # T-out: the model's decidable outcome predicate, evaluated by the Lean driver on the
    # implementation's own observation (optional second pass of a check module)
    outcome_checked = 0
    if hasattr(mod, "second_pass") and have_driver:
        lines2 = [(mod.second_pass(l, io) if io is not None else None) for l, io in zip(cases, impl)]
        idx = [i for i, l in enumerate(lines2) if l]
        outs, _, _ = C.run_lines(C.driver_bin(), [prop], [lines2[i] for i in idx], timeout=900)
        already = {l for l, _, _, _ in pviol}
        for i, o in zip(idx, outs):
            outcome_checked += 1
            if o != "ok" and cases[i] not in already:
                pviol.append((cases[i], impl[i], model[i],
                              f"the model's outcome predicate (`allowed`, Lean) does not admit the implementation's observation: {o}"))
    # A failure that does not persist when the case is run again on its own is not counted: the
    # cases are deterministic by construction, so a one-off difference in a batch of tens of
    # thousands is the harness being starved on a loaded machine (e.g. a goroutine missing the
    # scheduler's arrival deadline), not the code under test. The number dropped is in the evidence.
    transient = 0
    def persists(line, is_pred):
        # free-running contention cases are probabilistic by nature: one observed failure of such a
        # case is conclusive (their oracle cannot fail on correct code), so it is not re-run
        if hasattr(mod, "conclusive") and mod.conclusive(line):
            return True
        for _ in range(2):
            i2, m2 = recheck(line)
            if is_pred:
                if i2 is None or mod.predicate(line, i2):
                    return True
                if hasattr(mod, "second_pass") and have_driver:
                    l2 = mod.second_pass(line, i2)
                    if l2:
                        o2, _, _ = C.run_lines(C.driver_bin(), [prop], [l2], timeout=120)
                        if o2[0] != "ok":
                            return True
            elif i2 != m2:
                return True
        return False
    if not replay:
        kept = []
        for j, item in enumerate(pviol):
            if j < 40 and not persists(item[0], True):
                transient += 1
            else:
                kept.append(item)
        pviol = kept
        kept = []
        for j, item in enumerate(disagreements):
            if j < 40 and not persists(item[0], False):
                transient += 1
            else:
                kept.append(item)
        disagreements = kept
    for line, io, mo in zip(cases[:3], impl[:3], model[:3]):
        samples.append({"case": line[:400], "impl": (io or "")[:400], "model": (mo or "")[:400]})

    # known findings: confirmation stream
    for f in findings:
        if f.get("status") != "open":
            continue
        wit = mod.known_witnesses().get(f["key"]) if hasattr(mod, "known_witnesses") else None
        if not wit:
            continue
        wi, _, _ = C.run_lines(hbin, hargs, wit, timeout=300, env=henv)
        still = [w for w, o in zip(wit, wi) if o is None or mod.predicate(w, o, allow_known=True)]
        if still:
            rep.known_finding(f"{f['key']}: {f['what']} (witness still fails: {still[0][:160]})")
        else:
            rep.note(f"known finding {f['key']} no longer reproduces on its witness")

    nviol = 0
    seen_keys = set()
    for line, io, mo, why in pviol:
        key = mod.classify(line, io, why) if hasattr(mod, "classify") else None
        if key in open_keys:
            continue  # belongs to a listed finding (reported above through its witness)
        if key in seen_keys and key is not None:
            continue
        seen_keys.add(key)
        if nviol >= 5:
            break
        small = line
        if hasattr(mod, "shrink") and os.environ.get("VERIF_NO_SHRINK") != "1":
            def same_failure(l, key=key):
                o = recheck(l)[0]
                if o is None:
                    return io is None
                w = mod.predicate(l, o)
                if not w:
                    return False
                return (mod.classify(l, o, w) if hasattr(mod, "classify") else None) == key
            small = mod.shrink(line, same_failure)
        io2, mo2 = recheck(small)
        why2 = (mod.predicate(small, io2) if io2 is not None else "no output (crash or hang)") or why
        path = C.write_replay(prop, f"violation-{seed}-{nviol}.txt",
                              f"# property {prop}: {why2}\n# replay: ./check {prop} --replay <this file>\n{small}\n"
                              f"# implementation: {io2}\n# model:          {mo2}\n")
        rep.violation(path, why2[:300])
        nviol += 1
    if nviol == 0 and (disagreements or proof_broken):
        # correspondence or a proof obligation broke but the property predicate holds on every
        # implementation observation of this run: still a violation, with no failing input
        what = []
        if proof_broken:
            what.append(proof_broken)
        small_d = None
        if disagreements:
            line, io, mo = disagreements[0]
            small = line
            if hasattr(mod, "shrink"):
                small = mod.shrink(line, lambda l: (lambda o: not agree(l, o[0], o[1]))(recheck(l)))
            io2, mo2 = recheck(small)
            small_d = (small, io2, mo2)
            what.append(f"correspondence model/implementation broke on {len(disagreements)} of {len(cases)} cases")
        body = f"# property {prop}: " + " | ".join(what) + "\n"
        if small_d:
            body += f"{small_d[0]}\n# implementation: {small_d[1]}\n# model:          {small_d[2]}\n"
        path = C.write_replay(prop, f"broken-{seed}.txt", body)
        rep.violation(path, " | ".join(what), found=False)

    cov = {
        "obligations": obligations, "discharged": discharged if ok_build else 0,
        "checker_cmd": f"cd lean && lake build FunProps.{prop} && lake env lean <#print axioms of each theorem>"
                       + (" && lake env leanchecker FunProps.%s" % prop if tier == "thorough" else ""),
        "trusted_base": C.TRUSTED_BASE + getattr(mod, "TRUSTED", []),
        "theorems": names, "axioms_used": sorted({a for v in axioms.values() for a in v}),
        "evaluations": len(cases), "distinct_nontrivial": len(distinct),
        "rule": mod.RULE, "samples": samples, "input_distribution": dict(sorted(hist.items())),
        "traces_validated_against_impl": sum(1 for l, i, m in zip(cases, impl, model) if i is not None and agree(l, i, m)),
        "disagreements": len(disagreements), "property_predicate_failures": len(pviol),
        "impl_missing_outputs": sum(1 for i in impl if i is None),
        "transient_not_reproduced": transient, "not_judged_after_repeated_hangs": skipped_after_timeouts,
    }
    if hasattr(mod, "second_pass"):
        cov["outcome_predicate_evaluations"] = outcome_checked
    cov.update(getattr(mod, "extra_coverage", lambda: {})())
    C.write_evidence(prop, tier, seed, mod.LEVEL, cov, getattr(mod, "ASSUMPTIONS", []), time.time() - t0,
                     len(rep.violations))
    print(f"{prop}: theorems {cov['discharged']}/{obligations} checked; {len(cases)} cases, "
          f"{cov['traces_validated_against_impl']} agree, {len(disagreements)} disagree, "
          f"{len(pviol)} property failures; {time.time()-t0:.1f}s")
    return rep.finish()
