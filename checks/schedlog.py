"""Parsing of the T-sched logs: `{enabled}label=end wake=[..] ; ... ; final blocked=[..] <subject state>`"""
import re
from . import common as C

STEP = re.compile(r"^\{([^}]*)\}([srcf])(\d+)=(.*?) wake=\[([^\]]*)\]$")


class Step:
    def __init__(self, enabled, kind, tid, end, wake):
        self.enabled, self.kind, self.tid, self.end, self.wake = enabled, kind, tid, end, wake
        self.ret = end[4:] if end.startswith("ret:") else None
        self.park = end[5:] if end.startswith("park:") else None


def parse(obs):
    """-> (steps, final_blocked list of 'tid@cond', final_state string, error or None)"""
    steps, blocked, state, err = [], [], "", None
    for part in obs.split(" ; "):
        part = part.strip()
        if part.startswith("final blocked=["):
            m = re.match(r"final blocked=\[([^\]]*)\] ?(.*)$", part)
            blocked = [x for x in m.group(1).split(",") if x]
            state = m.group(2)
        elif part.startswith("TIMEOUT") or part == "model-stuck":
            err = part
        elif part.startswith("note="):
            continue
        else:
            m = STEP.match(part)
            if not m:
                err = "unparsable step: " + part[:80]
                break
            steps.append(Step(m.group(1).split(","), m.group(2), int(m.group(3)), m.group(4),
                              [int(x) for x in m.group(5).split()]))
    return steps, blocked, state, err


def programs_of(line):
    t = C.parse_sx(line)
    return [x[1:] for x in t[1:] if isinstance(x, list) and x and x[0] == "thread"]


def shrink_choices(line, fails):
    """shorten the choice list (the schedule) while the failure persists"""
    t = C.parse_sx(line)
    idx = next(i for i, x in enumerate(t) if isinstance(x, list) and x and x[0] == "choices")
    ch = t[idx][1:]
    # shortest failing prefix first
    lo = 0
    for n in range(0, len(ch) + 1):
        cand = list(t); cand[idx] = ["choices"] + ch[:n]
        if fails(C.sx(cand)):
            ch = ch[:n]; break
    t2 = list(t); t2[idx] = ["choices"] + ch
    return C.sx(t2)
