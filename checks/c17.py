"""C17 — sorting, IsSorted and Heap. Same protocol, harness and sequence-level oracle as C16; the
generator builds lists from the element-sequence categories the property names, sorts them with the
three comparators, asks IsSorted before and after, and then keeps using the list.
Besides the differential run, the pointer-level model of dt/cmp.go is tied to the source by a regenerated tie (T-gen):
tools/go2lean (cmp.go) rewrites lean/FunGen/Cmp.lean from $VERIF_REPO/dt/cmp.go on every run and the theorems of
FunProps/C17Gen.lean prove the hand-written IsSorted/split/merge/mergeSort/SortMerge/Heap.Push/Pop/Len of
FunModel/Dll.lean equal to the regenerated functions. If dt/cmp.go leaves the translator's subset, FunGen/Cmp.lean does
not compile and this property (only) reports a broken tie."""
from . import common as C
from . import c16
from .seqref import Ref, Unspecified

PROP = "C17"
LEVEL = "proof"
RULE = ("element sequences: empty, singleton, duplicates-heavy, sorted, reversed, negative/zero first, out-of-order pair at "
        "the first / last position, random; comparators native <, reversed >, key-projected ((x+1000)/10, so stability is "
        "observable); each case: build, IsSorted, SortMerge or SortQuick, IsSorted, then arbitrary C16 operations on the "
        "sorted list (remains usable), plus Heap push/pop sequences. Non-trivial: the list has >=2 elements and a sort "
        "changed the order or IsSorted answered false; distinct = distinct case lines.")
TRUSTED = ["sort.SliceStable is trusted to be a stable sort (modelled by stable insertion sort)",
           "T-gen (FunGen/Cmp.lean): tools/go2lean/cmp.go (the statement translator) and its mapping of calls from dt/cmp.go "
           "into dt/list.go (Len, Front, Back, PopFront, PushBack, PushFront, Extend, lazySetup, Ok, Value, Next, Previous, "
           "Append, NewElement, &List{}) onto the operations of the C16 model; SortQuick is not regenerated (T-diff only)"] + c16.TRUSTED
ASSUMPTIONS = c16.ASSUMPTIONS + ["comparators are strict weak orderings"]


def seq_of(rng):
    k = rng.randrange(9)
    n = rng.choice([2, 3, 4, 5, 8, 13, 30])
    rnd = lambda: rng.randrange(-20, 21)
    if k == 0:
        return []
    if k == 1:
        return [rnd()]
    if k == 2:
        return [rng.choice([-1, 0, 0, 3, 3, 11, 12, 19]) for _ in range(n)]
    if k == 3:
        return sorted(rnd() for _ in range(n))
    if k == 4:
        return sorted((rnd() for _ in range(n)), reverse=True)
    if k == 5:
        return [rng.choice([-5, -2, 0])] + sorted(abs(rnd()) for _ in range(n))
    if k == 6:
        xs = sorted(rnd() for _ in range(n)); xs[0], xs[1] = xs[1] + 1, xs[0]; return xs
    if k == 7:
        xs = sorted(rnd() for _ in range(n)); xs[-1], xs[-2] = xs[-2], xs[-1] + 1; return xs
    return [rnd() for _ in range(n)]


def gen(rng, tier, open_keys):
    n = 1500 if tier == "quick" else 80000
    out = []
    # the follow-up operations come from C16's generator: the shapes of C16's open findings
    # (Element.Swap, Item.Remove on the head item) are avoided here as they are there
    open_keys = set(open_keys) | {f["key"] for f in C.known_findings("C16") if f.get("status") == "open"}
    for i in range(n):
        g = c16.Gen(rng, 0, open_keys)
        g.emit(["newlist"]); g.emit(["newlist"])
        cmpn = rng.choice(["lt", "gt", "key"])
        if i % 5 == 4:
            if rng.random() < 0.35:
                # a heap populated from an iterator, which may fail part-way: whatever was pushed is a heap
                xs = seq_of(rng)
                g.emit(["heapfrom", cmpn, xs, rng.choice([len(xs), len(xs), rng.randrange(0, len(xs) + 1)])])
            else:
                g.emit(["heap", cmpn])
            for _ in range(rng.choice([0, 1, 3, 8, 20])):
                g.emit(["hpush", rng.randrange(-20, 21)] if rng.random() < 0.75 else ["hpop"])
            g.emit(["hiter"])
            for _ in range(rng.choice([1, 3, 25])):
                g.emit(["hpop"])
        else:
            xs = seq_of(rng)
            if rng.random() < 0.5:
                g.emit(["unjson", "L0", xs])
            else:
                for x in xs:
                    g.emit(["pb", "L0", x])
            g.emit(["sorted", "L0", cmpn])
            g.emit([rng.choice(["sortm", "sortq"]), "L0", cmpn])
            g.emit(["sorted", "L0", cmpn])
            g.emit(["sorted", "L0", rng.choice(["lt", "gt", "key"])])
            for _ in range(rng.choice([0, 3, 10])):
                g.list_op()
            if rng.random() < 0.5:
                g.emit([rng.choice(["sortm", "sortq"]), "L0", rng.choice(["lt", "gt", "key"])])
                g.emit(["iter", "L0"]); g.emit(["riter", "L0"])
        out.append(C.sx(["seq"] + g.ops))
    return out


def corpus():
    return ["(seq (newlist) (unjson L0 (1 3 2)) (sorted L0 lt))", "(seq (newlist) (unjson L0 (-2 -1 5)) (sorted L0 lt))",
            "(seq (newlist) (pb L0 2) (pb L0 1) (sortm L0 lt) (front L0) (popf L0) (pb L0 3))",
            "(seq (newlist) (unjson L0 (11 19 12 5)) (sortq L0 key) (sortm L0 key) (iter L0))"]


predicate = c16.predicate
shrink = c16.shrink
classify = c16.classify
known_witnesses = lambda: {}


def nontrivial(line, obs):
    t = C.parse_sx(line)
    return any(op[0] in ("sortm", "sortq", "hpush") for op in t[1:]) and len(t) > 6


def features(line, obs):
    t = C.parse_sx(line)
    f = []
    for op in t[1:]:
        if op[0] in ("sortm", "sortq", "sorted"):
            f.append(f"{op[0]}:{op[2]}")
        elif op[0] in ("hpush", "hpop", "heap", "heapfrom"):
            f.append(op[0])
    n = sum(1 for op in t[1:] if op[0] == "pb") + sum(len(op[2]) for op in t[1:] if op[0] == "unjson")
    f.append(f"len:{min(n, 30) // 5 * 5}")
    if obs:
        f.append("issorted-false" if " ; 0 L[" in obs else "issorted-true-only")
    return f
