"""C03 — worker-group error contract.

Case kinds (harness/c03.go and lean/FunModel/Drv/C03.lean are the two interpreters):
  (cce (flags cp ce ic) (excl id…) term)   one cell of CanContinueOnError's decision table
The oracle below evaluates the property statement itself on the implementation's observation."""
import re
from . import common as C
from . import c12

PROP = "C03"
LEVEL = "proof"
RULE = ("decision table: every base error {nil, ers.Error const, pointer error, errors.New, typed error, ErrIteratorSkip, io.EOF, "
        "context.Canceled, context.DeadlineExceeded, ErrCurrentOpAbort, ErrRecoveredPanic, ParsePanic of each, joined pairs} x "
        "wrap shape {bare, %w, %w%w, errors.Join, multi-%w, custom Unwrap()[]error, ers.Join, *ers.Stack, ers.Wrap, ers.ParsePanic, "
        "custom Unwind} x 2^3 flags x excluded lists {empty, the error, its wrapper, unrelated, unrelated+error, io.EOF, "
        "context.Canceled, ErrRecoveredPanic, sibling}, plus random deep trees. Non-trivial: a non-nil error; distinct = distinct case lines.")
TRUSTED = ["errors.Is of the Go standard library is modelled (Err.is), not verified"]
ASSUMPTIONS = []

S_PANIC, S_SKIP, S_EOF, S_CANCEL, S_DEADLINE, S_ABORT = 1000, 1002, 1003, 1004, 1005, 1006


# ---------------- generator: decision table ---------------------------------------------------
BASES = [
    ("nil", "N", None),
    ("const", ["L", 3], 3), ("ptr", ["L", 4], 4), ("new", ["L", 5], 5), ("typed", ["T", 1, 6], 6),
    ("skip", ["L", S_SKIP], S_SKIP), ("eof", ["L", S_EOF], S_EOF), ("canceled", ["L", S_CANCEL], S_CANCEL),
    ("deadline", ["L", S_DEADLINE], S_DEADLINE), ("abort", ["L", S_ABORT], S_ABORT),
    ("panic-sentinel", ["L", S_PANIC], S_PANIC),
    ("panic-err", ["P", ["L", 4]], 4), ("panic-string", ["P", ["L", 3]], 3), ("panic-other", ["P", ["L", 5]], 5),
    ("panic-eof", ["P", ["L", S_EOF]], S_EOF), ("panic-skip", ["P", ["L", S_SKIP]], S_SKIP),
    ("panic-ctx", ["P", ["L", S_CANCEL]], S_CANCEL),
    ("skip+eof", ["J", ["L", S_SKIP], ["L", S_EOF]], S_EOF), ("eof+err", ["J", ["L", S_EOF], ["L", 4]], 4),
    ("ctx+err", ["J", ["L", S_CANCEL], ["L", 4]], 4), ("skip+err", ["M", 9, ["L", S_SKIP], ["L", 4]], 4),
    ("abort+eof", ["J", ["L", S_ABORT], ["L", S_EOF]], S_ABORT), ("deadline+err", ["W", 8, ["J", ["L", S_DEADLINE], ["L", 5]]], 5),
]

SHAPES = [
    ("bare", lambda b: b), ("w", lambda b: ["W", 20, b]), ("ww", lambda b: ["W", 21, ["W", 20, b]]),
    ("errors.Join", lambda b: ["M", 21, b]), ("multi-w", lambda b: ["M", 22, b, ["L", 30]]),
    ("custom-multi", lambda b: ["M", 23, "N", b]), ("ers.Join", lambda b: ["J", b, ["L", 30]]),
    ("stack", lambda b: ["S", b, ["L", 30]]), ("ers.Wrap", lambda b: ["X", 31, b]),
    ("parsepanic", lambda b: ["P", b]), ("unwinder", lambda b: ["U", 24, b]),
]


def excl_lists(own):
    out = [[], [20], [999], [S_EOF], [S_CANCEL], [S_PANIC], [30]]
    if own is not None:
        out += [[own], [999, own]]
    return out


def gen_table():
    out = []
    for bname, b, own in BASES:
        for sname, sh in SHAPES:
            if b == "N" and sname != "bare":
                continue
            t = sh(b)
            for ex in excl_lists(own):
                for fl in range(8):
                    out.append(C.sx(["cce", ["flags", fl >> 2 & 1, fl >> 1 & 1, fl & 1], ["excl"] + ex, t]))
    return out


def target_ids(t, out, under_container=False):
    """ids that can be named as errors.Is targets and survive flattening: leaves, typed, %w wrappers"""
    if isinstance(t, list):
        if t[0] in ("L", "T", "W"):
            out.append(int(t[2] if t[0] == "T" else t[1]))
        for x in t[1:]:
            target_ids(x, out)
    return out


def gen_random(rng, n, maxdepths):
    out = []
    sentinels = [S_PANIC, S_SKIP, S_EOF, S_CANCEL, S_DEADLINE, S_ABORT]
    for _ in range(n):
        g = c12.G(rng, rng.choice(maxdepths))
        # seed some sentinel leaves so that the interesting classes are hit in deep positions
        for s in rng.sample(sentinels, rng.randrange(0, 3)):
            g.leaves.append(["L", s])
        t = g.term(0) if rng.random() < 0.3 else ["J"] + g.kids(0)
        ids = target_ids(t, [])
        ex = []
        if ids and rng.random() < 0.6:
            ex = rng.sample(ids, min(len(ids), rng.randrange(1, 3)))
        if rng.random() < 0.3:
            ex.append(999)
        fl = rng.randrange(8)
        out.append(C.sx(["cce", ["flags", fl >> 2 & 1, fl >> 1 & 1, fl & 1], ["excl"] + ex, t]))
    return out


def gen(rng, tier, open_keys):
    out = gen_table()
    out += gen_random(rng, 3000 if tier == "quick" else 60000, [2, 3, 4, 6] if tier == "quick" else [2, 4, 6, 8])
    return out


def corpus():
    return ["(cce (flags 0 1 0) (excl 4) (L 4))", "(cce (flags 0 1 0) (excl 4) (W 20 (L 4)))",
            "(cce (flags 0 0 1) (excl 1004) (W 20 (L 1004)))", "(cce (flags 0 1 0) (excl 4) (P (L 4)))"]


# ---------------- independent oracle (the property statement, in Python) ----------------------
def cce_expect(t):
    """(reports, cont) the property prescribes for this cell"""
    cp, ce, ic = (int(x) for x in t[1][1:4])
    ex = [int(x) for x in t[2][1:]]
    v = c12.ev(t[3])
    if v is None:
        return 0, 1, "nil"
    has = lambda i: c12.contains(v, i)
    excluded = any(has(i) for i in ex)
    if has(S_PANIC):
        return 1, cp, "panic"                       # always reported; continue <=> ContinueOnPanic
    if has(S_SKIP):
        return 0, 1, "skip"                         # never reported, never stops anything
    if has(S_EOF):
        return 0, 0, "eof"                          # never reported; ends this worker
    if has(S_CANCEL) or has(S_DEADLINE):
        return (1 if ic and not excluded else 0), 0, "ctx"
    if excluded:
        return 0, ce, "excluded"
    return 1, ce, "plain"


def predicate(line, obs, allow_known=False):
    t = C.parse_sx(line)
    if obs.startswith("PANIC") or obs.startswith("bad"):
        return "implementation panicked / rejected the case: " + obs[:200]
    if t[0] == "cce":
        m = re.match(r"cont=(\d) reports=(\d+)(.*)", obs)
        if not m:
            return "unparsable observation " + obs[:100]
        rep, cont, cls = cce_expect(t)
        if "handed-other-value" in m.group(3):
            return "CanContinueOnError handed a different value than the error to the ErrorHandler"
        if int(m.group(2)) != rep:
            if cls in ("excluded", "ctx") and int(m.group(2)) > rep:
                return (f"CanContinueOnError reported ({m.group(2)}x) an error that is listed in ExcludedErrors "
                        f"(class {cls}); the property says excluded errors are never reported")
            return f"CanContinueOnError called the ErrorHandler {m.group(2)}x for a {cls} error; the property says {rep}x"
        if int(m.group(1)) != cont:
            return f"CanContinueOnError returned {m.group(1)} for a {cls} error; the property says {cont}"
        return None
    return "unknown case kind"


def classify(line, obs, why):
    t = C.parse_sx(line)
    if t[0] == "cce":
        if "ExcludedErrors" in why:
            return "CanContinueOnError:excluded-error-reported"
        return "CanContinueOnError:" + cce_expect(t)[2]
    return None


def nontrivial(line, obs):
    return obs is not None and not line.endswith(" N)")


def features(line, obs):
    t = C.parse_sx(line)
    f = ["kind:" + t[0]]
    if t[0] == "cce":
        f.append("class:" + cce_expect(t)[2])
        f.append("flags:" + "".join(str(x) for x in t[1][1:4]))
        f.append("excl:" + ("none" if len(t[2]) == 1 else "some"))
        f.append("obs:" + (obs or "none")[:16])
    return f


def shrink(line, fails):
    t = C.parse_sx(line)
    if t[0] != "cce":
        return line
    # drop excluded ids, then prune the term like C12 does
    changed = True
    while changed:
        changed = False
        for i in range(1, len(t[2])):
            t2 = [t[0], t[1], t[2][:i] + t[2][i + 1:], t[3]]
            if fails(C.sx(t2)):
                t, changed = t2, True
                break
    budget = 200
    changed = True
    while changed and budget > 0:
        changed = False
        for path in list(c12.paths(t[3], [3])):
            sub = c12.get(t, path)
            if not isinstance(sub, list):
                continue
            cands = [c for c in sub[1:] if isinstance(c, list) and c[0] in "LTWMUSJXP"]
            for cnd in cands:
                t2 = c12.put(t, path, cnd)
                budget -= 1
                if fails(C.sx(t2)):
                    t, changed = t2, True
                    break
            if changed or budget <= 0:
                break
    return C.sx(t)
