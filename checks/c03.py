"""C03 — worker-group error contract.

Case kinds (harness/c03.go and lean/FunModel/Drv/C03.lean are the two interpreters):
  (cce (flags cp ce ic) (excl id…) term)   one cell of CanContinueOnError's decision table (T-gen + T-diff)
  (run (c pp|pfe|wrk|map|gen) (n W) (flags cp ce ic) (excl b) (custom b) (items K) (gate b) (faults (pos kind gating)…))
                                            a real worker group with failing user functions (T-out): the harness prints
                                            an observation, the Lean driver judges `(judge (run …) (obs …))` with the
                                            model's outcome predicate and answers ok / REJECT.
The oracle below evaluates the property statement itself on the implementation's observation."""
import os, re
from . import common as C
from . import c12

PROP = "C03"
LEVEL = "proof"
RULE = ("decision table: every base error {nil, ers.Error const, pointer error, errors.New, typed error, ErrIteratorSkip, io.EOF, "
        "context.Canceled, context.DeadlineExceeded, ErrCurrentOpAbort, ErrRecoveredPanic, ParsePanic of each, joined pairs} x "
        "wrap shape {bare, %w, %w%w, errors.Join, multi-%w, custom Unwrap()[]error, ers.Join, *ers.Stack, ers.Wrap, ers.ParsePanic, "
        "custom Unwind} x 2^3 flags x excluded lists {empty, the error, its wrapper, unrelated, unrelated+error, io.EOF, "
        "context.Canceled, ErrRecoveredPanic, sibling}, plus random deep trees. Non-trivial: a non-nil error; distinct = distinct case lines.")
RULE += (" Constructs: ProcessParallel, itertool.ParallelForEach, itertool.Worker, Map, GenerateParallel x workers 1..5 x inputs "
         "0..12 items (thorough: ..64) x a fault at one position or at a pair of positions x failure kinds {error, %w-wrapped error, "
         "error joined with an excluded sentinel, panic(error), panic(string), panic(struct), panic(io.EOF), ErrIteratorSkip, io.EOF, "
         "ErrCurrentOpAbort, context.Canceled, wrapped DeadlineExceeded} x 2^3 flags x ExcludedErrors on/off x custom collector on/off; "
         "single faults are swept over constructs x kinds x flags, pairs are sampled. Non-trivial run case: at least one fault was started. "
         "The abort bound (items started after the first failure returned <= workers) is judged for Map and GenerateParallel only; "
         "for the ProcessParallel family it is an open finding replayed in the confirmation stream, everything else is judged for it too.")
TRUSTED = ["errors.Is of the Go standard library is modelled (Err.is), not verified",
           "constructs (T-out): the process model is tied to the implementation by outcome, not step by step: the Lean driver "
           "accepts or rejects each observed run (start/return order per goroutine on a logical clock, report membership)",
           "goroutine identity in the harness is the runtime's goroutine id parsed from runtime.Stack"]
ASSUMPTIONS = ["the caller's context is not cancelled and the output iterator is read to its end (cancellation and early Close are C04)",
               "the handling of a user function's result by its worker (recover, CanContinueOnError, collector, group cancel) is atomic "
               "with respect to other workers' starts; the harness holds new starts after a stopping call returned until the "
               "cancellation is visible in the context passed to the user function (hang detector VERIF_C03_GATE_MS, default 3000 ms)"]
HARNESS_ENV = {"VERIF_CASE_TIMEOUT_MS": "30000"}

KEY_PSLICE = "ers.ParsePanic:error-slice-payload"
# Iterator.ProcessParallel (hence itertool.ParallelForEach / Process / Worker) never cancels its group in abort
# mode: the unedited TestParallelForEach/AbortOnPanic asserts that the item after the failure is processed.
KEY_PPFAM = "ProcessParallel-family:abort-does-not-cancel-group"
CANCELLING = ("map", "gen")      # constructs whose workers cancel the group on a stopping result

S_PANIC, S_SKIP, S_EOF, S_CANCEL, S_DEADLINE, S_ABORT = 1000, 1002, 1003, 1004, 1005, 1006


# ---------------- generator: decision table ---------------------------------------------------
BASES = [
    ("nil", "N", None),
    ("const", ["L", 3], 3), ("ptr", ["L", 4], 4), ("new", ["L", 5], 5), ("typed", ["T", 1, 6], 6),
    ("skip", ["L", S_SKIP], S_SKIP), ("eof", ["L", S_EOF], S_EOF), ("canceled", ["L", S_CANCEL], S_CANCEL),
    ("deadline", ["L", S_DEADLINE], S_DEADLINE), ("abort", ["L", S_ABORT], S_ABORT),
    ("panic-sentinel", ["L", S_PANIC], S_PANIC),
    ("panic-err", ["P", ["L", 4]], 4), ("panic-string", ["P", ["L", 3]], 3), ("panic-other", ["P", ["L", 5]], 5),
    ("panic-eof", ["P", ["L", S_EOF]], S_EOF), ("panic-skip", ["P", ["L", S_SKIP]], S_SKIP),
    ("panic-ctx", ["P", ["L", S_CANCEL]], S_CANCEL),
    ("skip+eof", ["J", ["L", S_SKIP], ["L", S_EOF]], S_EOF), ("eof+err", ["J", ["L", S_EOF], ["L", 4]], 4),
    ("ctx+err", ["J", ["L", S_CANCEL], ["L", 4]], 4), ("skip+err", ["M", 9, ["L", S_SKIP], ["L", 4]], 4),
    ("abort+eof", ["J", ["L", S_ABORT], ["L", S_EOF]], S_ABORT), ("deadline+err", ["W", 8, ["J", ["L", S_DEADLINE], ["L", 5]]], 5),
]

SHAPES = [
    ("bare", lambda b: b), ("w", lambda b: ["W", 20, b]), ("ww", lambda b: ["W", 21, ["W", 20, b]]),
    ("errors.Join", lambda b: ["M", 21, b]), ("multi-w", lambda b: ["M", 22, b, ["L", 30]]),
    ("custom-multi", lambda b: ["M", 23, "N", b]), ("ers.Join", lambda b: ["J", b, ["L", 30]]),
    ("stack", lambda b: ["S", b, ["L", 30]]), ("ers.Wrap", lambda b: ["X", 31, b]),
    ("parsepanic", lambda b: ["P", b]), ("unwinder", lambda b: ["U", 24, b]),
]


def excl_lists(own):
    out = [[], [20], [999], [S_EOF], [S_CANCEL], [S_PANIC], [30]]
    if own is not None:
        out += [[own], [999, own]]
    return out


def gen_table():
    out = []
    for bname, b, own in BASES:
        for sname, sh in SHAPES:
            if b == "N" and sname != "bare":
                continue
            t = sh(b)
            for ex in excl_lists(own):
                for fl in range(8):
                    out.append(C.sx(["cce", ["flags", fl >> 2 & 1, fl >> 1 & 1, fl & 1], ["excl"] + ex, t]))
    return out


def target_ids(t, out, under_container=False):
    """ids that can be named as errors.Is targets and survive flattening: leaves, typed, %w wrappers"""
    if isinstance(t, list):
        if t[0] in ("L", "T", "W"):
            out.append(int(t[2] if t[0] == "T" else t[1]))
        for x in t[1:]:
            target_ids(x, out)
    return out


def gen_random(rng, n, maxdepths):
    out = []
    sentinels = [S_PANIC, S_SKIP, S_EOF, S_CANCEL, S_DEADLINE, S_ABORT]
    for _ in range(n):
        g = c12.G(rng, rng.choice(maxdepths))
        # seed some sentinel leaves so that the interesting classes are hit in deep positions
        for s in rng.sample(sentinels, rng.randrange(0, 3)):
            g.leaves.append(["L", s])
        t = g.term(0) if rng.random() < 0.3 else ["J"] + g.kids(0)
        ids = target_ids(t, [])
        ex = []
        if ids and rng.random() < 0.6:
            ex = rng.sample(ids, min(len(ids), rng.randrange(1, 3)))
        if rng.random() < 0.3:
            ex.append(999)
        fl = rng.randrange(8)
        out.append(C.sx(["cce", ["flags", fl >> 2 & 1, fl >> 1 & 1, fl & 1], ["excl"] + ex, t]))
    return out


def gen(rng, tier, open_keys):
    out = gen_table()
    out += gen_random(rng, 3000 if tier == "quick" else 60000, [2, 3, 4, 6] if tier == "quick" else [2, 4, 6, 8])
    return out


def corpus():
    return ["(cce (flags 0 1 0) (excl 4) (L 4))", "(cce (flags 0 1 0) (excl 4) (W 20 (L 4)))",
            "(cce (flags 0 0 1) (excl 1004) (W 20 (L 1004)))", "(cce (flags 0 1 0) (excl 4) (P (L 4)))"]


# ---------------- independent oracle (the property statement, in Python) ----------------------
def cce_expect(t):
    """(reports, cont) the property prescribes for this cell"""
    cp, ce, ic = (int(x) for x in t[1][1:4])
    ex = [int(x) for x in t[2][1:]]
    v = c12.ev(t[3])
    if v is None:
        return 0, 1, "nil"
    has = lambda i: c12.contains(v, i)
    excluded = any(has(i) for i in ex)
    if has(S_PANIC):
        return 1, cp, "panic"                       # always reported; continue <=> ContinueOnPanic
    if has(S_SKIP):
        return 0, 1, "skip"                         # never reported, never stops anything
    if has(S_EOF):
        return 0, 0, "eof"                          # never reported; ends this worker
    if has(S_CANCEL) or has(S_DEADLINE):
        return (1 if ic and not excluded else 0), 0, "ctx"
    if excluded:
        return 0, ce, "excluded"
    return 1, ce, "plain"


def predicate(line, obs, allow_known=False):
    t = C.parse_sx(line)
    if obs.startswith("PANIC") or obs.startswith("bad"):
        return "implementation panicked / rejected the case: " + obs[:200]
    if t[0] == "cce":
        m = re.match(r"cont=(\d) reports=(\d+)(.*)", obs)
        if not m:
            return "unparsable observation " + obs[:100]
        rep, cont, cls = cce_expect(t)
        if "handed-other-value" in m.group(3):
            return "CanContinueOnError handed a different value than the error to the ErrorHandler"
        if int(m.group(2)) != rep:
            if cls in ("excluded", "ctx") and int(m.group(2)) > rep:
                return (f"CanContinueOnError reported ({m.group(2)}x) an error that is listed in ExcludedErrors "
                        f"(class {cls}); the property says excluded errors are never reported")
            return f"CanContinueOnError called the ErrorHandler {m.group(2)}x for a {cls} error; the property says {rep}x"
        if int(m.group(1)) != cont:
            return f"CanContinueOnError returned {m.group(1)} for a {cls} error; the property says {cont}"
        return None
    return "unknown case kind"


def classify(line, obs, why):
    t = C.parse_sx(line)
    if t[0] == "cce":
        if "ExcludedErrors" in why:
            return "CanContinueOnError:excluded-error-reported"
        return "CanContinueOnError:" + cce_expect(t)[2]
    return None


def nontrivial(line, obs):
    return obs is not None and not line.endswith(" N)")


def features(line, obs):
    t = C.parse_sx(line)
    f = ["kind:" + t[0]]
    if t[0] == "cce":
        f.append("class:" + cce_expect(t)[2])
        f.append("flags:" + "".join(str(x) for x in t[1][1:4]))
        f.append("excl:" + ("none" if len(t[2]) == 1 else "some"))
        f.append("obs:" + (obs or "none")[:16])
    return f


def shrink(line, fails):
    t = C.parse_sx(line)
    if t[0] != "cce":
        return line
    # drop excluded ids, then prune the term like C12 does
    changed = True
    while changed:
        changed = False
        for i in range(1, len(t[2])):
            t2 = [t[0], t[1], t[2][:i] + t[2][i + 1:], t[3]]
            if fails(C.sx(t2)):
                t, changed = t2, True
                break
    budget = 200
    changed = True
    while changed and budget > 0:
        changed = False
        for path in list(c12.paths(t[3], [3])):
            sub = c12.get(t, path)
            if not isinstance(sub, list):
                continue
            cands = [c for c in sub[1:] if isinstance(c, list) and c[0] in "LTWMUSJXP"]
            for cnd in cands:
                t2 = c12.put(t, path, cnd)
                budget -= 1
                if fails(C.sx(t2)):
                    t, changed = t2, True
                    break
            if changed or budget <= 0:
                break
    return C.sx(t)


# =============================================================================================
# constructs (T-out)
# =============================================================================================
CONSTRUCTS = ["pp", "pfe", "wrk", "map", "gen"]
KINDS = ["err", "werr", "xerr", "perr", "pstr", "pval", "peof", "skip", "eof", "abort", "ctx", "dl"]
PANICS = {"perr", "pstr", "pval", "peof", "pslice", "pempty"}
HAS_TARGET = {"err", "werr", "xerr", "perr", "pslice"}
HAS_MARKER = {"pstr", "pval"}


def kind_semantics(kind, cp, ce, ic, excl):
    """(reportable, continues) for a failure kind under a configuration — the property statement:
    panics and errors are reported; io.EOF, ErrIteratorSkip, context errors (unless included) and
    excluded errors are not; the worker goes on iff ContinueOnPanic (panic) / ContinueOnError (error);
    skip always goes on; io.EOF and context errors end the worker."""
    if kind in PANICS:
        return True, bool(cp)
    if kind == "skip":
        return False, True
    if kind == "eof":
        return False, False
    if kind in ("ctx", "dl"):
        return bool(ic), False
    if kind == "xerr" and excl:
        return False, bool(ce)
    return True, bool(ce)


def mk_run(c, n, fl, excl, custom, k, gate, faults, gate_anyway=False):
    """`gating` marks the faults after whose return new starts are held until the group's cancellation is visible:
    the stopping results of the constructs that cancel (for the ProcessParallel family only in the known-finding
    witnesses, `gate_anyway`: there the wait ends in the hang detector and the observation says nocancel=1)."""
    cp, ce, ic = fl >> 2 & 1, fl >> 1 & 1, fl & 1
    fs = []
    for pos, kind in sorted(faults.items()):
        rep, cont = kind_semantics(kind, cp, ce, ic, excl)
        gating = (not cont) and not (c == "gen" and kind == "eof") and (c in CANCELLING or gate_anyway)
        fs.append([pos, kind, int(gating)])
    return C.sx(["run", ["c", c], ["n", n], ["flags", cp, ce, ic], ["excl", excl], ["custom", custom], ["items", k],
                 ["gate", gate], ["faults"] + fs])


def gen_runs(rng, tier, open_keys):
    out = []
    maxk = 12 if tier == "quick" else 64
    reps = 5 if tier == "quick" else 120
    kinds = list(KINDS)
    if KEY_PSLICE not in open_keys:
        kinds += ["pslice", "pempty"]

    def rk():
        return rng.choice([1, 2, 3, 5, 8, maxk, rng.randrange(1, maxk + 1), rng.randrange(1, maxk + 1)])
    # single fault: every construct x kind x flags, position swept over the repetitions
    for c in CONSTRUCTS:
        for kind in kinds:
            for fl in range(8):
                for r in range(reps):
                    k = rk()
                    pos = [0, k - 1, k // 2][r % 3] if r < 3 else rng.randrange(k)
                    out.append(mk_run(c, rng.randrange(1, 6), fl, rng.randrange(2), rng.randrange(2), k,
                                      int(rng.random() < 0.85), {pos: kind}))
    # every position of a fixed input, abort and continue, every construct and worker count
    for c in CONSTRUCTS:
        for n in range(1, 6):
            for pos in range(6):
                for kind, fl in (("err", 0), ("perr", 0), ("err", 6), ("perr", 6), ("err", 4), ("perr", 2)):
                    out.append(mk_run(c, n, fl, 0, pos % 2, 6, 1, {pos: kind}))
    # pairs of positions
    npairs = 6000 if tier == "quick" else 250000
    for _ in range(npairs):
        k = max(2, rk())
        a, b = rng.sample(range(k), 2)
        if rng.random() < 0.3:
            b = min(k - 1, a + 1) if a + 1 < k else a - 1     # adjacent
        faults = {a: rng.choice(kinds), b: rng.choice(kinds)}
        if rng.random() < 0.1 and k > 3:
            faults[rng.randrange(k)] = rng.choice(kinds)
        out.append(mk_run(rng.choice(CONSTRUCTS), rng.randrange(1, 6), rng.randrange(8), rng.randrange(2),
                          rng.randrange(2), k, int(rng.random() < 0.85), faults))
    # no faults, empty input
    for c in CONSTRUCTS:
        for k in (0, 1, 7):
            for n in (1, 4):
                out.append(mk_run(c, n, 0, 0, 0, k, 1, {}))
    return out


def parse_obs(obs):
    o = C.parse_sx(obs)
    d = {x[0]: x[1:] for x in o[1:]}
    return {
        "nil": d["res"][0] == "nil",
        "is": {int(p): b == "1" for p, b in d["is"]},
        "txt": {int(p): b == "1" for p, b in d["txt"]},
        "sent": dict(zip(["panic", "skip", "eof", "canceled", "deadline", "abort", "excl"], [b == "1" for b in d["sent"]])),
        "starts": [(int(x), int(t), int(g)) for x, t, g in d["starts"]],
        "rets": [(int(x), int(t)) for x, t in d["rets"]],
        "nocancel": int(d["nocancel"][0]),
        "out": int(d["out"][0]),
    }


def parse_run(t):
    d = {x[0]: x[1:] for x in t[1:]}
    cp, ce, ic = (int(x) for x in d["flags"])
    return {"c": d["c"][0], "n": int(d["n"][0]), "cp": cp, "ce": ce, "ic": ic, "excl": int(d["excl"][0]),
            "custom": int(d["custom"][0]), "k": int(d["items"][0]), "gate": int(d["gate"][0]),
            "faults": {int(f[0]): (f[1], int(f[2])) for f in d["faults"]}}


def run_predicate(t, obs, allow_known):
    r = parse_run(t)
    try:
        o = parse_obs(obs)
    except Exception as e:  # noqa
        return "unparsable observation " + obs[:120]
    n, k = r["n"], r["k"]
    started = [x for x, _, _ in o["starts"]]
    # --- every item at most once, only input items
    if len(set(started)) != len(started):
        dup = [x for x in set(started) if started.count(x) > 1]
        return f"item {dup[0]} was processed {started.count(dup[0])} times"
    if any(x < 0 or x >= k for x in started):
        return "an item that is not in the input was processed"
    sem = {p: kind_semantics(kd, r["cp"], r["ce"], r["ic"], r["excl"]) for p, (kd, _) in r["faults"].items()}
    st_faults = [p for p in r["faults"] if p in started]
    # --- open finding: a []error panic payload is not flagged / can be swallowed
    if any(r["faults"][p][0] in ("pslice", "pempty") for p in st_faults):
        ps = [p for p in st_faults if r["faults"][p][0] in ("pslice", "pempty")]
        only = all(r["faults"][p][0] in ("pslice", "pempty") for p in st_faults)
        if only and not o["sent"]["panic"]:
            return (f"the panic at item {ps[0]} (payload []error) was reported without ErrRecoveredPanic"
                    + (" and the result is nil: the panic was swallowed" if o["nil"] else ""))
        return None     # mixed with other faults: the remaining clauses assume flagged panics
    # --- reported: nothing lost, nothing invented
    for p, (kd, _) in sorted(r["faults"].items()):
        rep = sem[p][0] and p in started
        if kd in HAS_TARGET and o["is"].get(p, False) != rep:
            if rep:
                return f"the {kd} failure at item {p} was swallowed: errors.Is(result, injected error) is false"
            return (f"errors.Is(result, injected error of item {p}) is true although that "
                    + ("item was never processed" if p not in started else f"{kd} error must not be reported (excluded)"))
        if kd in HAS_MARKER and o["txt"].get(p, False) != rep:
            return f"the {kd} panic at item {p}: payload text in the report = {o['txt'].get(p)} but reported should be {rep}"
    want_sent = {
        "panic": any(r["faults"][p][0] in PANICS for p in st_faults),
        "skip": False,
        "eof": any(r["faults"][p][0] == "peof" for p in st_faults),
        "canceled": bool(r["ic"]) and any(r["faults"][p][0] == "ctx" for p in st_faults),
        "deadline": bool(r["ic"]) and any(r["faults"][p][0] == "dl" for p in st_faults),
        "abort": any(r["faults"][p][0] == "abort" for p in st_faults),
        "excl": (not r["excl"]) and any(r["faults"][p][0] == "xerr" for p in st_faults),
    }
    for name, w in want_sent.items():
        if o["sent"][name] != w:
            what = {"panic": "ErrRecoveredPanic", "skip": "ErrIteratorSkip", "eof": "io.EOF", "canceled": "context.Canceled",
                    "deadline": "context.DeadlineExceeded", "abort": "ErrCurrentOpAbort", "excl": "the excluded sentinel"}[name]
            return f"errors.Is(result, {what}) = {o['sent'][name]} but the processed failures say {w}"
    # --- nil exactly when no reportable failure occurred
    any_rep = any(sem[p][0] for p in st_faults)
    if o["nil"] == any_rep:
        return f"result nil={o['nil']} although {'a' if any_rep else 'no'} reportable failure occurred"
    # --- continue mode: every item exactly once
    if all(sem[p][1] for p in st_faults) and len(started) != k:
        return f"every processed failure allows continuing, yet only {len(started)} of {k} items were processed"
    # --- abort: the failing worker handles no further item
    ret_tick = dict(o["rets"])
    gid_of = {x: g for x, _, g in o["starts"]}
    for p in st_faults:
        if not sem[p][1] and p in ret_tick:
            later = [x for x, tk, g in o["starts"] if g == gid_of[p] and tk > ret_tick[p]]
            if later:
                return f"the worker whose call on item {p} failed ({r['faults'][p][0]}) went on to process item {later[0]}"
    # --- abort: what is started after the first failure returned is bounded by the number of workers
    # (judged for Map / GenerateParallel; for the ProcessParallel family only in the confirmation stream of the
    #  open finding KEY_PPFAM — the main generator never marks a fault of that family as gating)
    gating = sorted((ret_tick[p], p) for p in st_faults if r["faults"][p][1] == 1 and p in ret_tick)
    if gating and r["gate"] == 1 and sem[gating[0][1]][0] and (r["c"] in CANCELLING or allow_known):
        tf, p = gating[0]
        after = sum(1 for _, tk, _ in o["starts"] if tk > tf)
        if o["nocancel"] == 1:
            return (f"after the failing call on item {p} returned the other workers were never told to stop (their context was "
                    f"still live after the hang timeout); {after} more items were started, workers={n}")
        if o["nocancel"] == 0 and after > n:
            return f"{after} items were started after the first failure (item {p}) returned; the bound is the number of workers, {n}"
    return None


_cce_predicate = predicate


def predicate(line, obs, allow_known=False):   # noqa: F811
    t = C.parse_sx(line)
    if t[0] != "run":
        return _cce_predicate(line, obs, allow_known)
    if obs.startswith("PANIC") or obs.startswith("bad"):
        return "a panic escaped the construct / the case was rejected: " + obs[:200]
    if obs.startswith("REJECT"):
        return None     # the model's verdict is handled as a disagreement, not as a property failure
    return run_predicate(t, obs, allow_known)


_cce_classify, _cce_features, _cce_shrink = classify, features, shrink


def classify(line, obs, why):   # noqa: F811
    t = C.parse_sx(line)
    if t[0] != "run":
        return _cce_classify(line, obs, why)
    if "payload []error" in why:
        return KEY_PSLICE
    if parse_run(t)["c"] not in CANCELLING and ("never told to stop" in why or "items were started after" in why):
        return KEY_PPFAM
    for pat, key in (("never told to stop", "abort:group-not-cancelled"), ("items were started after", "abort:unbounded"),
                     ("went on to process", "abort:failing-worker-continues"), ("swallowed", "report:swallowed"),
                     ("must not be reported", "report:excluded-reported"), ("result nil", "report:nil-iff"),
                     ("times", "exactly-once:duplicate"), ("yet only", "continue:items-lost"), ("escaped", "panic-escaped")):
        if pat in why:
            return "run:" + parse_run(t)["c"] + ":" + key
    return "run:other"


def nontrivial(line, obs):   # noqa: F811
    if not line.startswith("(run"):
        return obs is not None and not line.endswith(" N)")
    if obs is None or not obs.startswith("(obs"):
        return False
    r, o = parse_run(C.parse_sx(line)), parse_obs(obs)
    st = {x for x, _, _ in o["starts"]}
    return any(p in st for p in r["faults"])


def features(line, obs):   # noqa: F811
    t = C.parse_sx(line)
    if t[0] != "run":
        return _cce_features(line, obs)
    r = parse_run(t)
    f = ["kind:run", "construct:" + r["c"], f"workers:{r['n']}", f"items:{min(r['k'], 65) // 8 * 8}+",
         f"nfaults:{len(r['faults'])}", f"runflags:{r['cp']}{r['ce']}{r['ic']}", f"excl-on:{r['excl']}", f"custom:{r['custom']}"]
    for p, (kd, g) in r["faults"].items():
        f.append("fault:" + kd)
    if obs and obs.startswith("(obs"):
        o = parse_obs(obs)
        f.append("res:" + ("nil" if o["nil"] else "err"))
        f.append(f"nocancel:{o['nocancel']}")
        if any(g for _, g in r["faults"].values()) and r["gate"]:
            f.append("bound-measured")
    return f


def shrink(line, fails):   # noqa: F811
    t = C.parse_sx(line)
    if t[0] != "run":
        return _cce_shrink(line, fails)
    r = parse_run(t)
    fl = r["cp"] << 2 | r["ce"] << 1 | r["ic"]

    def build(r):
        return mk_run(r["c"], r["n"], fl, r["excl"], r["custom"], r["k"], r["gate"], {p: kd for p, (kd, _) in r["faults"].items()})
    budget = 40
    changed = True
    while changed and budget > 0:
        changed = False
        cands = []
        for p in list(r["faults"]):
            if len(r["faults"]) > 1:
                cands.append(dict(r, faults={q: v for q, v in r["faults"].items() if q != p}))
        top = max(r["faults"]) if r["faults"] else -1
        # keep enough items behind the last fault for the other workers to have something to start
        for k2 in (top + 2 + 2 * r["n"], r["k"] // 2):
            if top + 1 + 2 * r["n"] < k2 < r["k"]:
                cands.append(dict(r, k=k2))
        if r["n"] > 1:
            cands.append(dict(r, n=r["n"] - 1))
        if r["custom"]:
            cands.append(dict(r, custom=0))
        for cnd in cands:
            budget -= 1
            line2 = build(cnd)
            if fails(line2) and fails(line2):     # twice: the observation depends on the schedule
                r, changed = cnd, True
                break
            if budget <= 0:
                break
    return build(r)


_gen_cce = gen


def gen(rng, tier, open_keys):   # noqa: F811
    seen, out = set(corpus()), []
    for l in _gen_cce(rng, tier, open_keys) + gen_runs(rng, tier, open_keys):
        if l not in seen:
            seen.add(l); out.append(l)
    return out


_corpus_cce = corpus


def corpus():   # noqa: F811
    return _corpus_cce() + [
        # D11 (fixed for Map / GenerateParallel): abort mode never cancelled the group (4 workers, 1000 items, failure at item 5)
        mk_run("map", 4, 0, 0, 0, 1000, 1, {5: "err"}),
        mk_run("pp", 4, 0, 0, 0, 40, 1, {5: "err"}),
        mk_run("map", 3, 0, 0, 0, 40, 1, {2: "perr"}),
        mk_run("gen", 4, 0, 0, 0, 64, 1, {5: "err"}),
        mk_run("pfe", 2, 2, 1, 1, 9, 1, {3: "xerr"}),
        mk_run("gen", 3, 0, 0, 0, 12, 1, {4: "eof"}),
    ]


def known_witnesses():
    return {KEY_PPFAM: [mk_run("pp", 4, 0, 0, 0, 1000, 1, {5: "err"}, gate_anyway=True),
                        mk_run("wrk", 2, 0, 0, 1, 12, 1, {3: "perr"}, gate_anyway=True)],
            KEY_PSLICE: [mk_run("pp", 2, 6, 0, 0, 6, 0, {2: "pslice"}), mk_run("map", 2, 0, 0, 0, 6, 0, {1: "pempty"})]}


# ---------------- runner: the generic differential runner, with the driver judging observed runs ----------------
def main(tier, seed, replay):
    """T-out needs the model to see the implementation's observation: the case lines handed to the
    Lean driver are rewritten to `(judge <case> <observation>)`, and an `ok` verdict is mapped back
    to the observation so that the generic runner's equality test means "accepted by the model"."""
    from . import diffcheck
    orig = C.run_lines
    last = {"lines": None, "obs": None}

    def run_lines(binary, args, lines, timeout=600, env=None):
        if binary != C.driver_bin():
            res = orig(binary, args, lines, timeout=timeout, env=env)
            last["lines"], last["obs"] = list(lines), list(res[0])
            return res
        # the driver is always run on the case list the harness has just been run on
        obs = last["obs"] if last["lines"] == list(lines) else [None] * len(lines)
        lines2 = []
        for l, o in zip(lines, obs):
            if l.startswith("(run") and o is not None and o.startswith("(obs"):
                lines2.append(f"(judge {l} {o})")
            elif l.startswith("(run"):
                lines2.append("(nojudge)")
            else:
                lines2.append(l)
        out, rc, err = orig(binary, args, lines2, timeout=timeout, env=env)
        out = [o if (m == "ok" or (m == "bad-op" and l2 == "(nojudge)")) else m
               for o, l2, m in zip(obs, lines2, out)]
        return out, rc, err
    C.run_lines = run_lines
    try:
        import sys
        return diffcheck.run(sys.modules[__name__], tier, seed, replay)
    finally:
        C.run_lines = orig
